import CddVerif.Proofs.Exmod
/-!
# C20 — `exmod --dry-run` writes nothing; a real run stays inside the output directory

Statement (properties.jsonl): *With --dry-run, exposing a module creates, modifies or deletes no file or directory
anywhere.  Without it, everything created lies under the given output directory, every generated file is valid Python
whose `__all__` names symbols it defines or imports, the source package is not modified, and modules excluded by the
blacklist (or not in the whitelist) produce no output.*

The theorems are about `Exmod.run` / `Exmod.trace`, the effect-trace model of `cdd exmod` (Model/Exmod.lean), for
**every** abstract file system (so also an output directory that already exists and already holds `__init__.py` files
or the result of an earlier real run), every `find_spec` table, every package list and every configuration.
The tie to the code is the correspondence check of `harness/props/c20.py` (observed audit events = model trace).
"Valid Python / `__all__` defined or imported" is an oracle on the real output only (it is about file *contents*,
which the model abstracts).
-/
namespace C20
open Exmod Py

-- string literal → `List Char` at elaboration time (string literals do not reduce under `decide`)
macro:max "c!" s:str : term => do
  let cs : Array (Lean.TSyntax `term) := s.getString.toList.toArray.map (fun c => Lean.quote c)
  `([$cs,*])

/-! ## Clause 1 — dry run -/

/-- **`dry_run_pure`** (clause "with --dry-run … creates, modifies or deletes no file or directory anywhere"):
    with `dry_run = true`, every effect of the run is a `print` — for every file system (existing output directory with
    `__init__.py` files included), every emit kind list, recursion flag, blacklist/whitelist, `--emit-sqlalchemy-submodule`. -/
theorem dry_run_pure (cfg : Cfg) (env : Env) (fs : FS) (h : cfg.dryRun = true) :
    ∀ e ∈ trace cfg env fs, e.isPrint = true :=
  ((dry_exmodCli (OK := fun _ => True) (I := fun _ => True) cfg env h) fs trivial (fun _ _ => trivial)).1

/-- same clause, on the state: when a dry run returns, the file system of the model is the one it started from -/
theorem dry_run_fs_unchanged (cfg : Cfg) (env : Env) (fs : FS) (h : cfg.dryRun = true) (hr : (run cfg env fs).val = .ok ()) :
    (run cfg env fs).fs = fs :=
  ((dry_exmodCli (OK := fun _ => True) (I := fun fs' => fs' = fs) cfg env h) fs rfl (fun _ _ => trivial)).2 () hr

/-- no effect of a dry run has a target path at all -/
theorem dry_run_no_target (cfg : Cfg) (env : Env) (fs : FS) (h : cfg.dryRun = true) :
    ∀ e ∈ trace cfg env fs, e.target? = none := by
  intro e he
  have := dry_run_pure cfg env fs h e he
  cases e <;> simp_all [Effect.isPrint, Effect.target?]

/-! ## Clause 4 — blacklist/whitelist gate -/

theorem proceed_false_of_blacklisted (bl wl : List Str) (mp : Str) (h : mp ∈ bl) : proceed bl wl mp = false := by
  unfold proceed
  have h1 : bl.contains mp = true := by simpa using h
  have h2 : (bl.length + wl.length == 0) = false := by
    cases bl with
    | nil => cases h
    | cons _ _ => exact beq_eq_false_iff_ne.mpr (by simp only [List.length_cons]; omega)
  rw [h1, h2]; rfl

theorem proceed_false_of_not_whitelisted (bl wl : List Str) (mp : Str) (hne : wl ≠ []) (h : mp ∉ wl) :
    proceed bl wl mp = false := by
  unfold proceed
  have h1 : wl.contains mp = false := by simpa using h
  have h2 : wl.isEmpty = false := by cases wl <;> simp_all
  have h3 : (bl.length + wl.length == 0) = false := by
    cases wl with
    | nil => exact absurd rfl hne
    | cons _ _ => exact beq_eq_false_iff_ne.mpr (by simp only [List.length_cons]; omega)
  rw [h1, h2, h3]; simp

/-- a folder whose gate is closed contributes nothing: no effect, no change, no item -/
theorem singleFolder_closed (r : Run) (moduleName : Str) (mrd od : Path) (fs : FS)
    (h : proceed r.cfg.blacklist r.cfg.whitelist (modPathOf r.moduleRoot moduleName) = false) :
    (singleFolder r moduleName mrd od fs).trace = [] ∧ (singleFolder r moduleName mrd od fs).fs = fs := by
  unfold singleFolder
  simp only [h]
  exact ⟨rfl, rfl⟩

/-- **`gated` (blacklist)**: a module (folder) whose path, as `exmod_single_folder` computes it, is blacklisted
    contributes no effect at all — whatever the whitelist says, so also when it is in *both* lists. -/
theorem gated_blacklist (r : Run) (moduleName : Str) (mrd od : Path) (fs : FS)
    (h : modPathOf r.moduleRoot moduleName ∈ r.cfg.blacklist) :
    (singleFolder r moduleName mrd od fs).trace = [] ∧ (singleFolder r moduleName mrd od fs).fs = fs :=
  singleFolder_closed r moduleName mrd od fs (proceed_false_of_blacklisted _ _ _ h)

/-- **`gated` (whitelist)**: with a non-empty whitelist, a module that is not in it contributes no effect. -/
theorem gated_whitelist (r : Run) (moduleName : Str) (mrd od : Path) (fs : FS)
    (hne : r.cfg.whitelist ≠ []) (h : modPathOf r.moduleRoot moduleName ∉ r.cfg.whitelist) :
    (singleFolder r moduleName mrd od fs).trace = [] ∧ (singleFolder r moduleName mrd od fs).fs = fs :=
  singleFolder_closed r moduleName mrd od fs (proceed_false_of_not_whitelisted _ _ _ hne h)

/-- **`gated` (recursion)**: the packages visited below the top folder are neither blacklisted nor (with a non-empty
    whitelist) missing from the whitelist — `find_packages(include=…, exclude=…)`. -/
theorem gated_packages (cfg : Cfg) (env : Env) (p : Str) (h : p ∈ packagesOf cfg env) :
    p ∉ cfg.blacklist ∧ (cfg.whitelist = [] ∨ p ∈ cfg.whitelist) := by
  unfold packagesOf at h
  have h2 := (List.mem_filter.mp h).2
  simp only [Bool.and_eq_true, Bool.or_eq_true, Bool.not_eq_true'] at h2
  refine ⟨by simpa using h2.2, ?_⟩
  rcases h2.1 with h3 | h3
  · left; cases hw : cfg.whitelist <;> simp_all
  · right; simpa using h3

/-- non-vacuity of the gate theorems: a module in both lists, and one missing from a non-empty whitelist -/
example : proceed [c!"p.sub"] [c!"p.sub"] (modPathOf c!"p" c!"p.sub") = false := by decide
example : proceed [] [c!"p.other"] (modPathOf c!"p" c!"p.sub") = false := by decide
example : proceed [] [c!"p.sub"] (modPathOf c!"p" c!"p.sub") = true := by decide

/-- the name the gate compares is **not** the fully-qualified name when `--module` has no dot (`".".join(("", m))`)… -/
theorem modPath_undotted (m : Str) (h : startsWith m ['.'] = false) : modPathOf [] m = '.' :: m := by
  unfold modPathOf; simp [h]
/-- …nor for a package found by the recursion (`module_name` is then relative to the top folder) -/
example : modPathOf c!"p" c!"sub.deep" = c!"p.sub.deep" := by decide
example : modPathOf c!"p" c!"deep" = c!"p.deep" := by decide   -- visited from `-m p.sub`: FQN is p.sub.deep

end C20
