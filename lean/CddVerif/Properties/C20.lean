import CddVerif.Proofs.ExmodConfined
/-!
# C20 — `exmod --dry-run` writes nothing; a real run stays inside the output directory

Statement (properties.jsonl): *With --dry-run, exposing a module creates, modifies or deletes no file or directory
anywhere.  Without it, everything created lies under the given output directory, every generated file is valid Python
whose `__all__` names symbols it defines or imports, the source package is not modified, and modules excluded by the
blacklist (or not in the whitelist) produce no output.*

The theorems are about `Exmod.run` / `Exmod.trace`, the effect-trace model of `cdd exmod` (Model/Exmod.lean), for
**every** abstract file system (so also an output directory that already exists and already holds `__init__.py` files
or the result of an earlier real run), every `find_spec` table, every package list and every configuration.
The tie to the code is the correspondence check of `harness/props/c20.py` (observed audit events = model trace).
"Valid Python / `__all__` defined or imported" is an oracle on the real output only (it is about file *contents*,
which the model abstracts).
-/
namespace C20
open Exmod Py

-- string literal → `List Char` at elaboration time (string literals do not reduce under `decide`)
macro:max "c!" s:str : term => do
  let cs : Array (Lean.TSyntax `term) := s.getString.toList.toArray.map (fun c => Lean.quote c)
  `([$cs,*])

/-! ## Clause 1 — dry run -/

/-- **`dry_run_pure`** (clause "with --dry-run … creates, modifies or deletes no file or directory anywhere"):
    with `dry_run = true`, every effect of the run is a `print` — for every file system (existing output directory with
    `__init__.py` files included), every emit kind list, recursion flag, blacklist/whitelist, `--emit-sqlalchemy-submodule`. -/
theorem dry_run_pure (cfg : Cfg) (env : Env) (fs : FS) (h : cfg.dryRun = true) :
    ∀ e ∈ trace cfg env fs, e.isPrint = true :=
  ((dry_exmodCli (OK := fun _ => True) (I := fun _ => True) cfg env h) fs trivial (fun _ _ => trivial)).1

/-- same clause, on the state: when a dry run returns, the file system of the model is the one it started from -/
theorem dry_run_fs_unchanged (cfg : Cfg) (env : Env) (fs : FS) (h : cfg.dryRun = true) (hr : (run cfg env fs).val = .ok ()) :
    (run cfg env fs).fs = fs :=
  ((dry_exmodCli (OK := fun _ => True) (I := fun fs' => fs' = fs) cfg env h) fs rfl (fun _ _ => trivial)).2 () hr

/-- no effect of a dry run has a target path at all -/
theorem dry_run_no_target (cfg : Cfg) (env : Env) (fs : FS) (h : cfg.dryRun = true) :
    ∀ e ∈ trace cfg env fs, e.target? = none := by
  intro e he
  have := dry_run_pure cfg env fs h e he
  cases e <;> simp_all [Effect.isPrint, Effect.target?]

/-! ## Clauses 2 and 3 — a real run stays inside the output directory; the source package is not a target -/

/-- **`confined`, full statement** (clause "without it, everything created lies under the given output directory"):
    every `mkdir` / `open(…, "a")` / `open(…, "w")` of a real run has the output directory as a (component-wise) prefix.
    It is **false** of the code as it is — see the three witnesses below. -/
def confined_full : Prop :=
  ∀ (cfg : Cfg) (env : Env) (fs : FS), cfg.dryRun = false →
    ∀ e ∈ trace cfg env fs, ∀ p, e.target? = some p → underB cfg.out p = true

/-- **`confined_partial`**: the full conclusion on the decidable domain `Exmod.inDomain` —
    absolute output directory without trailing slash whose parent exists; new module name relative and *not* a dotted
    suffix of the output directory; package names giving relative directories; every item handed to
    `emit_file_on_hierarchy` stripped at a component boundary (`Exmod.itemOk`).
    Missing for the full statement: exactly the complement of that domain, where the statement is false
    (`confined_fails_*`).  Holds for every emit kind list, recursion flag, blacklist/whitelist, pre-existing output. -/
theorem confined_partial (cfg : Cfg) (env : Env) (fs : FS) (hd : inDomain cfg env fs = true) :
    ∀ e ∈ trace cfg env fs, ∀ p, e.target? = some p → underB cfg.out p = true := by
  intro e he p hp
  cases hdry : cfg.dryRun with
  | true =>
    have := dry_run_no_target cfg env fs hdry e he
    rw [this] at hp; cases hp
  | false =>
    unfold inDomain at hd
    simp only [Bool.and_eq_true, Bool.not_eq_true', bne_iff_ne, ne_eq, List.all_eq_true] at hd
    obtain ⟨⟨⟨⟨⟨⟨habs, hns⟩, hpar⟩, hrel⟩, hnm⟩, hpk⟩, hit⟩ := hd
    have ho : OutOk cfg.out := ⟨habs, hns⟩
    have h := conf_exmodCli ho cfg env rfl hdry hrel hnm hpk fs ⟨hpar, by intro x hx; cases hx⟩ hit
    exact h.1 e he p hp

/-- **source package never a target** (clause "the source package is not modified"): on the same domain, a path that is
    not below the output directory — in particular every file of the source package — is not created, opened for
    appending or written by any effect of the run. -/
theorem source_never_target (cfg : Cfg) (env : Env) (fs : FS) (hd : inDomain cfg env fs = true)
    (src : Path) (hsrc : underB cfg.out src = false) : ∀ e ∈ trace cfg env fs, e.target? ≠ some src := by
  intro e he h
  have := confined_partial cfg env fs hd e he src h
  rw [hsrc] at this; cases this

/-! ### concrete package trees (non-vacuity and negations) -/

/-- `/s/p/__init__.py`: `from p.a import A; __all__ = ["A"]`, `/s/p/a.py`: `class A` -/
def fsRe : FS :=
  { dirs := [c!"/", c!"/s", c!"/s/p", c!"/o"],
    files := [(c!"/s/p/__init__.py", ⟨[.from_ { module := some c!"p.a", names := [(c!"A", none)] }, .all_ [c!"A"]],
                                       [{ module := some c!"p.a", names := [(c!"A", none)] }]⟩),
              (c!"/s/p/a.py", ⟨[.def_ c!"A"], []⟩)] }
def envRe : Env := { specs := [(c!"p", c!"/s/p/__init__.py"), (c!"p.a", c!"/s/p/a.py")], allPackages := [] }
def cfgRe (out : Path) (dry : Bool) : Cfg :=
  { emitNames := [.class_], module := c!"p", blacklist := [], whitelist := [], out := out, target := none,
    sqlSub := false, recursive := false, dryRun := dry }

/-- non-vacuity of `confined_partial` / `source_never_target`: a re-exporting package is in the domain and the run
    does write (`/o/d/a.py`) -/
example : inDomain (cfgRe c!"/o/d" false) envRe fsRe = true := by decide +kernel
example : Effect.openW c!"/o/d/a.py" ∈ trace (cfgRe c!"/o/d" false) envRe fsRe := by decide +kernel
/-- non-vacuity of `dry_run_pure`: the dry run of the same configuration prints 25 lines -/
example : (trace (cfgRe c!"/o/d" true) envRe fsRe).length = 25 := by decide +kernel

/-- **negation 1** (known finding C20-init-above-output): output directory `/o/gold` for `-m p` ⇒ `/o/__init__.py`,
    outside the output directory, is opened for appending. -/
theorem confined_fails_init_above_output :
    Effect.openA c!"/o/__init__.py" ∈ trace (cfgRe c!"/o/gold" false) envRe fsRe ∧
    underB c!"/o/gold" c!"/o/__init__.py" = false := by decide +kernel

/-- `/s/p/__init__.py` defines `p_x` itself -/
def fsClash : FS :=
  { dirs := [c!"/", c!"/s", c!"/s/p", c!"/o"], files := [(c!"/s/p/__init__.py", ⟨[.def_ c!"p_x"], []⟩)] }
def envClash : Env := { specs := [(c!"p", c!"/s/p/__init__.py")], allPackages := [] }

/-- **negation 2** (known finding C20-src-init-overwrite): a def in the package's `__init__.py` whose name starts with the
    module name ⇒ the *source* `__init__.py` is written. -/
theorem confined_fails_source_written :
    Effect.openW c!"/s/p/__init__.py" ∈ trace (cfgRe c!"/o/d" false) envClash fsClash ∧
    underB c!"/o/d" c!"/s/p/__init__.py" = false := by decide +kernel

/-- `/s/ut/__init__.py`: `from utx.h import H; __all__ = ["H"]` (a package importing from a package whose name is its own
    plus one character) -/
def fsRoot : FS :=
  { dirs := [c!"/", c!"/s", c!"/s/ut", c!"/s/utx", c!"/o"],
    files := [(c!"/s/ut/__init__.py", ⟨[.from_ { module := some c!"utx.h", names := [(c!"H", none)] }, .all_ [c!"H"]],
                                        [{ module := some c!"utx.h", names := [(c!"H", none)] }]⟩),
              (c!"/s/utx/__init__.py", ⟨[], []⟩), (c!"/s/utx/h.py", ⟨[.def_ c!"H"], []⟩)] }
def envRoot : Env :=
  { specs := [(c!"ut", c!"/s/ut/__init__.py"), (c!"utx", c!"/s/utx/__init__.py"), (c!"utx.h", c!"/s/utx/h.py")], allPackages := [] }

/-- **negation 3** (model-level; same `[len(module_name)+1:]` defect): the key `utx.h.H.H` "starts with" the module name
    `ut`, is cut to `.h.H.H`, and `mod_path` becomes the absolute `/h/H`: a directory at the file-system root. -/
theorem confined_fails_root_escape :
    Effect.mkdir c!"/h" ∈ trace ({ cfgRe c!"/o/d" false with module := c!"ut" }) envRoot fsRoot ∧
    underB c!"/o/d" c!"/h" = false := by decide +kernel

theorem confined_full_false : ¬ confined_full := by
  intro h
  have h1 : underB c!"/o/gold" c!"/o/__init__.py" = true :=
    h (cfgRe c!"/o/gold" false) envRe fsRe rfl _ confined_fails_init_above_output.1 _ rfl
  rw [confined_fails_init_above_output.2] at h1
  cases h1

/-! ## Clause 4 — blacklist/whitelist gate -/

theorem proceed_false_of_blacklisted (bl wl : List Str) (mp : Str) (h : mp ∈ bl) : proceed bl wl mp = false := by
  unfold proceed
  have h1 : bl.contains mp = true := by simpa using h
  have h2 : (bl.length + wl.length == 0) = false := by
    cases bl with
    | nil => cases h
    | cons _ _ => exact beq_eq_false_iff_ne.mpr (by simp only [List.length_cons]; omega)
  rw [h1, h2]; rfl

theorem proceed_false_of_not_whitelisted (bl wl : List Str) (mp : Str) (hne : wl ≠ []) (h : mp ∉ wl) :
    proceed bl wl mp = false := by
  unfold proceed
  have h1 : wl.contains mp = false := by simpa using h
  have h2 : wl.isEmpty = false := by cases wl <;> simp_all
  have h3 : (bl.length + wl.length == 0) = false := by
    cases wl with
    | nil => exact absurd rfl hne
    | cons _ _ => exact beq_eq_false_iff_ne.mpr (by simp only [List.length_cons]; omega)
  rw [h1, h2, h3]; simp

/-- a folder whose gate is closed contributes nothing: no effect, no change, no item -/
theorem singleFolder_closed (r : Run) (moduleName : Str) (mrd od : Path) (fs : FS)
    (h : proceed r.cfg.blacklist r.cfg.whitelist (modPathOf r.moduleRoot moduleName) = false) :
    (singleFolder r moduleName mrd od fs).trace = [] ∧ (singleFolder r moduleName mrd od fs).fs = fs := by
  unfold singleFolder
  simp only [h]
  exact ⟨rfl, rfl⟩

/-- **`gated` (blacklist)**: a module (folder) whose path, as `exmod_single_folder` computes it, is blacklisted
    contributes no effect at all — whatever the whitelist says, so also when it is in *both* lists. -/
theorem gated_blacklist (r : Run) (moduleName : Str) (mrd od : Path) (fs : FS)
    (h : modPathOf r.moduleRoot moduleName ∈ r.cfg.blacklist) :
    (singleFolder r moduleName mrd od fs).trace = [] ∧ (singleFolder r moduleName mrd od fs).fs = fs :=
  singleFolder_closed r moduleName mrd od fs (proceed_false_of_blacklisted _ _ _ h)

/-- **`gated` (whitelist)**: with a non-empty whitelist, a module that is not in it contributes no effect. -/
theorem gated_whitelist (r : Run) (moduleName : Str) (mrd od : Path) (fs : FS)
    (hne : r.cfg.whitelist ≠ []) (h : modPathOf r.moduleRoot moduleName ∉ r.cfg.whitelist) :
    (singleFolder r moduleName mrd od fs).trace = [] ∧ (singleFolder r moduleName mrd od fs).fs = fs :=
  singleFolder_closed r moduleName mrd od fs (proceed_false_of_not_whitelisted _ _ _ hne h)

/-- **`gated` (recursion)**: the packages visited below the top folder are neither blacklisted nor (with a non-empty
    whitelist) missing from the whitelist — `find_packages(include=…, exclude=…)`. -/
theorem gated_packages (cfg : Cfg) (env : Env) (p : Str) (h : p ∈ packagesOf cfg env) :
    p ∉ cfg.blacklist ∧ (cfg.whitelist = [] ∨ p ∈ cfg.whitelist) := by
  unfold packagesOf at h
  have h2 := (List.mem_filter.mp h).2
  simp only [Bool.and_eq_true, Bool.or_eq_true, Bool.not_eq_true'] at h2
  refine ⟨by simpa using h2.2, ?_⟩
  rcases h2.1 with h3 | h3
  · left; cases hw : cfg.whitelist <;> simp_all
  · right; simpa using h3

/-- **`gated` (whole run)**: when the gate of the requested module is closed (blacklisted — whatever the whitelist —
    or missing from a non-empty whitelist), without `--recursive` and without the sqlalchemy submodule, the *only* effects
    of `exmod(<emit kind>)` are those of announcing / creating the output directory itself: the module contributes no
    `mkdir`, no `open(…, "a")`, no write. -/
theorem gated_run (cfg : Cfg) (env : Env) (emit : EmitKind) (announce : Bool) (fs : FS)
    (hclosed : proceed cfg.blacklist cfg.whitelist (modPathOf (rpartition cfg.module ['.']).1 cfg.module) = false)
    (hrec : cfg.recursive = false) (hsql : (emit.isSql && cfg.sqlSub) = false) :
    ∀ e ∈ (exmodStr cfg env emit announce fs).trace, e ∈ (announceOut cfg fs).trace :=
  gated_exmodStr cfg env emit announce fs hclosed hrec hsql

/-- non-vacuity of `gated_run`: `-m p.a --blacklist p.a --whitelist p.a` (a module in both lists) on the re-exporting
    package: the whole run is the one `mkdir` of the output directory -/
example : trace { cfgRe c!"/o/d" false with module := c!"p.a", blacklist := [c!"p.a"], whitelist := [c!"p.a"] } envRe fsRe
    = [.mkdir c!"/o/d"] := by decide +kernel

/-- **negation for fully-qualified names** (known finding C20-blacklist-top-undotted): `-m p --blacklist p` — the gate
    compares `.p`, so the blacklisted module is emitted all the same. -/
theorem gated_fqn_fails_undotted :
    Effect.openW c!"/o/d/a.py" ∈ trace { cfgRe c!"/o/d" false with blacklist := [c!"p"] } envRe fsRe := by decide +kernel

/-- non-vacuity of the gate theorems: a module in both lists, and one missing from a non-empty whitelist -/
example : proceed [c!"p.sub"] [c!"p.sub"] (modPathOf c!"p" c!"p.sub") = false := by decide
example : proceed [] [c!"p.other"] (modPathOf c!"p" c!"p.sub") = false := by decide
example : proceed [] [c!"p.sub"] (modPathOf c!"p" c!"p.sub") = true := by decide

/-- the name the gate compares is **not** the fully-qualified name when `--module` has no dot (`".".join(("", m))`)… -/
theorem modPath_undotted (m : Str) (h : startsWith m ['.'] = false) : modPathOf [] m = '.' :: m := by
  unfold modPathOf; simp [h]
/-- …nor for a package found by the recursion (`module_name` is then relative to the top folder) -/
example : modPathOf c!"p" c!"sub.deep" = c!"p.sub.deep" := by decide
example : modPathOf c!"p" c!"deep" = c!"p.deep" := by decide   -- visited from `-m p.sub`: FQN is p.sub.deep

end C20
