import CddVerif.Proofs.Cst
/-!
# C09 — the concrete syntax tree is lossless for every input string

Property theorems only (helper lemmas live in `CddVerif/Proofs/Cst.lean`).
-/
namespace C09
open Py Cst

/-- node line ranges tile the file starting at line `a` -/
def Tiles : Nat → List Node → Prop
  | _, [] => True
  | a, n :: rest => n.start = a ∧ n.stop = n.start + count1 n.value '\n' ∧ Tiles n.stop rest

/-- **Scanner losslessness, for every string and for every choice of the helper predicates.** -/
theorem scanner_lossless_generic (p : Preds) (src : Str) : (Generic.scanner p src).flatten = src :=
  Generic.scanner_lossless p src

/-- The faithful scanner is the generic one at the concrete predicates (definitionally). -/
theorem scanner_is_instance : Cst.scanner = Generic.scanner pyPreds := rfl

/-- **C09 (a):** concatenating the scanned chunks reproduces the input, for every string. -/
theorem scanner_lossless (src : Str) : (Cst.scanner src).flatten = src :=
  Generic.scanner_lossless pyPreds src

/-- The parser keeps every chunk verbatim as a node `value`, in order. -/
theorem parser_values (chunks : List Str) : (Cst.parser chunks).map (·.value) = chunks := by
  unfold Cst.parser
  generalize 1 = a
  generalize false = b
  induction chunks generalizing a b with
  | nil => simp [parserLoop]
  | cons s rest ih => simp [parserLoop, parseOne_value, ih]

/-- **C09 (b):** `cst_parse` is lossless for every string. -/
theorem cst_parse_lossless (src : Str) : ((Cst.cstParse src).map (·.value)).flatten = src := by
  unfold cstParse; rw [parser_values]; exact scanner_lossless src

theorem parserLoop_tiles (a : Nat) (b : Bool) (chunks : List Str) : Tiles a (parserLoop a b chunks) := by
  induction chunks generalizing a b with
  | nil => simp [parserLoop, Tiles]
  | cons s rest ih =>
    simp only [parserLoop, Tiles]
    refine ⟨parseOne_start a b s, ?_, ih _ _⟩
    rw [parseOne_stop, parseOne_start, parseOne_value]

/-- **C09 (c):** the line ranges tile the file: first node starts at line 1, each node starts on the
    line where the previous one ended, a node spans exactly as many `\n` as its text contains. -/
theorem parser_tiles (src : Str) : Tiles 1 (Cst.cstParse src) := parserLoop_tiles 1 false _

/-- Consequence: the last line number is `1 +` the number of newlines in the source. -/
theorem tiles_total : ∀ (a : Nat) (ns : List Node), Tiles a ns →
    (ns.getLast?.map (·.stop)).getD a = a + count1 (ns.map (·.value)).flatten '\n'
  | a, [], _ => by simp [count1]
  | a, [n], h => by
      simp only [Tiles] at h
      simp [count1, h.1 ▸ h.2.1]
  | a, n :: m :: rest, h => by
      simp only [Tiles] at h
      have ih := tiles_total n.stop (m :: rest) h.2.2
      have e : (n :: m :: rest).getLast? = (m :: rest).getLast? := by simp [List.getLast?_cons_cons]
      rw [e]
      have hm : ((m :: rest).getLast?.map (·.stop)).getD a = ((m :: rest).getLast?.map (·.stop)).getD n.stop := by
        cases h' : (m :: rest).getLast? with
        | none => simp at h'
        | some x => simp
      rw [hm, ih, h.2.1, h.1]
      simp [count1, List.count_append]; omega

/-- non-vacuity: a concrete multi-chunk input on which the scanner really splits -/
example : Cst.scanner ['#', 'x', '\n', 'a', '=', '1', '\n'] = [['#', 'x'], ['\n', 'a', '=', '1'], ['\n']] := by decide
example : (Cst.cstParse ['#', 'x', '\n', 'a', '=', '1', '\n']).map (fun n => (n.start, n.stop)) = [(1, 1), (1, 2), (2, 3)] := by decide

end C09
