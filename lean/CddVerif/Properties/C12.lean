import CddVerif.Proofs.Sync
/-!
# C12 — sync makes every target equivalent to the truth, then is a no-op

Model: `CddVerif/Model/Sync.lean` (`find_in_ast`, `RewriteAtQuery`, `cmp_ast`, `_conform_filename`, `ground_truth` over
`PyAst`; the emitters / parsers of the three kinds are parameters, their round-trip behaviour is the named hypothesis
`Sync.Laws` — properties C02 / C08, assumed here).

The unchanged code **violates** the property (see `/verif/known_findings.d/C12.txt`):

* `RewriteAtQuery.visit_FunctionDef` never replaces a whole `FunctionDef`: function / argparse targets are left as they
  are (`function_target_never_rewritten`, negations `C12_not_full_function`, `C12_not_full_argparse`);
* a method target `C.m` that is not found is appended at top level and appended again on every run
  (`dotted_append_not_idempotent`);
* a missing function file raises `TypeError` (`missing_function_file_raises`).

So the full statement is kept as `C12_full`, and what *does* hold is proved: the frame (every module, every path, every
kind), the class targets and the created targets with a top-level path, the truth's own interface, and idempotence
for every state in which no function-kind file was rewritten.
-/
namespace C12
open PyAst Sync

variable {IR : Type}

/-- **The property at full strength** (for black-box emitters obeying `Laws`): for every truth kind, every target paths
    and every state of the three files in which the truth's target parses, one run of sync
    (1) completes, (2) leaves in every file a named target whose interface is the truth's — missing / empty files are
    created —, in particular the truth's own, (3) changes nothing outside the named targets, and (4) a second run
    changes no file. -/
def C12_full (E : Emitters IR) (R : IR → IR → Prop) : Prop :=
  ∀ (t : Kind) (paths : Kind → List String) (s : Files) (ir0 : IR),
    targetIR E t (paths t) (s.get t) = .ok ir0 →
      (sync E t (paths t) paths s).err = none ∧
      (∀ k, Holds E R k (paths k) ((sync E t (paths t) paths s).files.get k) ir0) ∧
      (∀ k, FileFrame (paths k) (s.get k) ((sync E t (paths t) paths s).files.get k)) ∧
      (sync E t (paths t) paths (sync E t (paths t) paths s).files).files = (sync E t (paths t) paths s).files

/-! ## Frame: code outside the named target is unchanged — every module, every path, every kind, no hypothesis -/

/-- **Frame of `RewriteAtQuery`** (clause "code outside the named targets is unchanged"): visiting any module with any
    search path and a class / function replacement either changes nothing, or replaces exactly one node, and that
    node's `_location` is the search path; every other statement, at every depth, stays where it is. -/
theorem rewrite_frame (p : List String) (e : Stmt) (he : isAssign e = false) (m m' : Module) (st : RwSt)
    (h : rwList p none m { repl := .stmt e, replaced := false } = .ok (m', st)) :
    (st.replaced = false ∧ m' = m) ∨
    (st.replaced = true ∧ ∃ (ctx : Ctx) (old : Stmt), m = ctx.plug old ∧ m' = ctx.plug e ∧ loc (ctx.parent none) old = some p) :=
  (rwList_frame p e he m none false m' st h).2.2 rfl

/-- **Frame of `_conform_filename`**: the new file is the old one, or the old one plus one appended statement, or the
    old one with exactly one node at the target's `_location` replaced; a missing file becomes a one-statement file. -/
theorem conform_frame (E : Emitters IR) (k : Kind) (p : List String) (ir : IR) (f f' : Option Module) (flag : Bool)
    (h : conform E k p ir f = .ok (f', flag)) : FileFrame p f f' :=
  conform_frame' E k p ir f f' flag h

/-- **Frame of a whole run**, including runs that end in an exception after some files were written. -/
theorem sync_frame (E : Emitters IR) (t : Kind) (tp : List String) (paths : Kind → List String) (s : Files) (k : Kind) :
    FileFrame (paths k) (s.get k) ((sync E t tp paths s).files.get k) := by
  rcases sync_files E t tp paths s k with h | ⟨ir, flag, h⟩
  · rw [h]; exact FileFrame.refl _ _
  · exact conform_frame' E k (paths k) ir _ _ flag h

/-- **Frame of a run in which several kinds name the same file** (`--class shared.py --argparse-function shared.py`): the
    content of every file after the run — completed or aborted — is reached from its old content by a chain of
    `_conform_filename` frames, one for each kind that was processed on that file, each for that kind's own target path.
    So only the named targets of the kinds listed for a file can differ; everything else stays.  (`sync_frame` is the
    case of three distinct files.) -/
theorem sync_frame_shared (E : Emitters IR) (t : Kind) (tp : List String) (paths : Kind → List String) (slot : Kind → Kind)
    (s : Files) (k' : Kind) :
    ∃ ps, FrameChain ps (s.get k') ((syncAt E t tp paths slot s).files.get k') ∧
      ∀ p ∈ ps, ∃ k ∈ kinds, slot k = k' ∧ p = paths k := by
  unfold syncAt
  cases h : targetIR E t tp (s.get (slot t)) with
  | error e => exact ⟨[], .nil _, by simp⟩
  | ok ir => exact syncLoopAt_chain E paths slot ir k' kinds { files := s, flags := [], err := none }

/-- with three distinct files the general loop is the one all other theorems are about -/
theorem syncAt_id (E : Emitters IR) (t : Kind) (tp : List String) (paths : Kind → List String) (s : Files) :
    syncAt E t tp paths id s = sync E t tp paths s := by
  unfold syncAt sync
  simp only [id]
  cases h : targetIR E t tp (s.get t) with
  | error e => rfl
  | ok ir => exact syncLoopAt_id E paths ir kinds { files := s, flags := [], err := none }

/-- non-vacuity of the frame: a rewrite that does replace a nested node -/
example : (match rwList ["C", "x"] none [.cls "C" [] [] [.expr "1", .cls "x" [] [] [] []] []] { repl := .stmt (.cls "x" [] [] [.expr "2"] []), replaced := false } with
    | .ok (m', st) => st.replaced && beqList m' [.cls "C" [] [] [.expr "1", .cls "x" [] [] [.expr "2"] []] []]
    | .error _ => false) = true := by
  decide

/-! ## What holds of the first clause -/

/-- **`C12_partial`, class targets** (clause "every listed class … target, when parsed, has the truth's interface" and,
    for `t = class`, "the truth's own interface is unchanged"): in a completed run, a class file whose top-level target
    `K` is a `ClassDef` holds the truth's interface afterwards — for every module around it. -/
theorem C12_partial_class (E : Emitters IR) (R : IR → IR → Prop) (L : Laws E R) (t : Kind) (tp : List String)
    (paths : Kind → List String) (s : Files) (ir0 : IR) (K : String) (m : Module) (n : Stmt)
    (h0 : targetIR E t tp (s.get t) = .ok ir0) (hok : (sync E t tp paths s).err = none)
    (hp : paths .cls = [K]) (hm : s.cls = some m) (hf : findInAst [K] m = .ok (some (.stmt n))) (hn : isWanted .cls n = true) :
    Holds E R .cls [K] ((sync E t tp paths s).files.get .cls) ir0 := by
  obtain ⟨ir, fa, ba, fc, bc, ff, bf, e0, _, e2, _, e4, _⟩ := sync_ok E t tp paths s hok
  rw [h0] at e0; cases e0
  rw [e4, hp, hm] at *
  simp only [Files.get]
  rw [findInAst_single] at hf
  simp only [Except.ok.injEq] at hf
  obtain ⟨m', flag, c1, c2⟩ := conform_single_cls E R L K ir0 m n hf hn
  rw [c1] at e2; cases e2
  exact holds_of_found E R .cls K m' _ ir0 c2 (L.emitKind .cls ir0 none K) (fun ft => L.roundTrip .cls ir0 none K ft K)

/-- **`C12_partial`, created targets** (clause "missing or empty target files are created with that interface", for an
    existing file that is empty or lacks the target, any kind, top-level path): the emission is appended and the file
    then holds the truth's interface. -/
theorem C12_partial_created (E : Emitters IR) (R : IR → IR → Prop) (L : Laws E R) (t : Kind) (tp : List String)
    (paths : Kind → List String) (s : Files) (ir0 : IR) (k : Kind) (K : String) (m : Module)
    (h0 : targetIR E t tp (s.get t) = .ok ir0) (hok : (sync E t tp paths s).err = none)
    (hp : paths k = [K]) (hm : s.get k = some m) (hf : findInAst [K] m = .ok none) :
    (sync E t tp paths s).files.get k = some (m ++ [E.emit k ir0 none K]) ∧
      Holds E R k [K] ((sync E t tp paths s).files.get k) ir0 := by
  obtain ⟨ir, fa, ba, fc, bc, ff, bf, e0, e1, e2, e3, e4, _⟩ := sync_ok E t tp paths s hok
  rw [h0] at e0; cases e0
  rw [findInAst_single] at hf
  simp only [Except.ok.injEq] at hf
  obtain ⟨c1, c2⟩ := conform_single_append E R L k K ir0 m hf
  have hw := L.emitKind k ir0 none K
  have key : (sync E t tp paths s).files.get k = some (m ++ [E.emit k ir0 none K]) := by
    rw [e4]
    cases k
    · simp only [Files.get] at hm ⊢; rw [hp, hm, c1] at e1; cases e1; rfl
    · simp only [Files.get] at hm ⊢; rw [hp, hm, c1] at e2; cases e2; rfl
    · simp only [Files.get] at hm ⊢; rw [hp, hm, c1] at e3; cases e3; rfl
  refine ⟨key, ?_⟩
  rw [key]
  exact holds_of_found E R k K _ _ ir0 c2 hw (fun ft => L.roundTrip k ir0 none K ft K)

/-- **`C12_partial`, missing class / argparse files**: the file is created from `emit_func(ir, emit_default_doc=False)`;
    it holds the truth's interface **provided** that emission happens to carry the target's name (it carries the
    truth's, or `set_cli_args` — finding `C12-created-under-truth-name`). -/
theorem C12_partial_missing (E : Emitters IR) (R : IR → IR → Prop) (k : Kind) (hk : k ≠ .function) (K : String) (ir0 : IR)
    (hname : (E.emitNew k ir0).defName? = some K) (hw : isWanted k (E.emitNew k ir0) = true)
    (hr : ∀ ft, R (E.parse k (E.emitNew k ir0) ft K) ir0) :
    conform E k [K] ir0 none = .ok (some [E.emitNew k ir0], true) ∧ Holds E R k [K] (some [E.emitNew k ir0]) ir0 := by
  refine ⟨by simp [conform, hk], ?_⟩
  exact holds_of_found E R k K _ _ ir0 (findTop_hit K _ [] (ownName_of_wanted k _ K hw hname)) hw hr

/-- **The truth's own interface is unchanged** (top-level truth path, any kind): after processing the truth's own file
    with the truth's interface, its target still holds that interface — for a class because it is replaced by the
    re-emission of its own interface, for the function kinds because the found `FunctionDef` is never touched. -/
theorem truth_unchanged (E : Emitters IR) (R : IR → IR → Prop) (L : Laws E R) (t : Kind) (K : String) (ir0 : IR) (m : Module)
    (f' : Option Module) (flag : Bool)
    (h0 : targetIR E t [K] (some m) = .ok ir0) (h : conform E t [K] ir0 (some m) = .ok (f', flag)) :
    Holds E R t [K] f' ir0 := by
  simp only [targetIR_single] at h0
  split at h0
  · cases h0
  · rename_i f hfind
    split at h0
    · cases h0
    · rename_i ft hft
      split at h0
      · rename_i n
        split at h0
        · rename_i hw
          cases h0
          by_cases hk : t = .cls
          · subst hk
            obtain ⟨m', flag', c1, c2⟩ := conform_single_cls E R L K _ m n hfind hw
            rw [c1] at h; cases h
            exact holds_of_found E R .cls K m' _ _ c2 (L.emitKind .cls _ none K) (fun ft' => L.roundTrip .cls _ none K ft' K)
          · obtain ⟨m', c1, c2⟩ := conform_single_fn_keeps E t K _ m n hfind (isSyncFn_of_wanted_fn t n hk hw) f' flag h
            subst c1
            refine ⟨E.parse t n ft K, ?_, L.refl _⟩
            simp [targetIR_single, c2, hft, hw]
        · cases h0
      · cases h0

/-! ## Idempotence -/

/-- **Idempotence of `_conform_filename`** (clause "running the same sync a second time leaves every file
    byte-identical", at AST level), top-level path, same interface on both runs: for a class target in *every* module;
    for the function kinds in every module where the first run either left the file as it was or appended the missing
    target.  (The remaining case — a function-kind run that rewrote something — is not idempotent in general, and
    dotted paths are not either: `dotted_append_not_idempotent`.) -/
theorem conform_idempotent (E : Emitters IR) (R : IR → IR → Prop) (L : Laws E R) (k : Kind) (K : String) (ir : IR) (m : Module)
    (f' : Option Module) (flag : Bool) (h : conform E k [K] ir (some m) = .ok (f', flag))
    (hc : k = .cls ∨ f' = some m ∨ findInAst [K] m = .ok none) : ∃ flag', conform E k [K] ir f' = .ok (f', flag') := by
  refine conform_single_idem E R L k K ir m f' flag h ?_
  rcases hc with h1 | h1 | h1
  · exact Or.inl h1
  · exact Or.inr (Or.inl h1)
  · rw [findInAst_single] at h1
    simp only [Except.ok.injEq] at h1
    exact Or.inr (Or.inr h1)

/-- **Idempotence of a whole run**: for every state with three existing files and top-level target paths in which the
    first run completes and every function-kind file was either left as it was or had its missing target appended,
    the second run completes and changes no file.  The interface is re-read from the truth file between the runs; the
    emissions coincide by `Laws.emitCongr` (C08). -/
theorem sync_idempotent (E : Emitters IR) (R : IR → IR → Prop) (L : Laws E R) (t : Kind) (paths : Kind → List String)
    (names : Kind → String) (hp : ∀ k, paths k = [names k]) (s : Files) (ms : Kind → Module) (hs : ∀ k, s.get k = some (ms k))
    (hok : (sync E t (paths t) paths s).err = none)
    (hc : ∀ k, k = .cls ∨ (sync E t (paths t) paths s).files.get k = s.get k ∨ findInAst (paths k) (ms k) = .ok none) :
    (sync E t (paths t) paths (sync E t (paths t) paths s).files).files = (sync E t (paths t) paths s).files ∧
    (sync E t (paths t) paths (sync E t (paths t) paths s).files).err = none := by
  obtain ⟨ir, fa, ba, fc, bc, ff, bf, e0, e1, e2, e3, e4, _⟩ := sync_ok E t (paths t) paths s hok
  have ha := hs .argparse; have hcl := hs .cls; have hfn := hs .function
  simp only [Files.get] at ha hcl hfn
  rw [e4] at hc ⊢
  rw [hp] at e1 e2 e3
  rw [ha] at e1; rw [hcl] at e2; rw [hfn] at e3
  -- second run of each file with the SAME interface
  have i1 : ∃ b, conform E .argparse [names .argparse] ir fa = .ok (fa, b) := by
    refine conform_idempotent E R L .argparse _ ir _ fa ba e1 ?_
    rcases hc .argparse with h | h | h
    · cases h
    · simp only [Files.get] at h; rw [ha] at h; exact Or.inr (Or.inl h)
    · rw [hp] at h; exact Or.inr (Or.inr h)
  have i2 : ∃ b, conform E .cls [names .cls] ir fc = .ok (fc, b) := conform_idempotent E R L .cls _ ir _ fc bc e2 (Or.inl rfl)
  have i3 : ∃ b, conform E .function [names .function] ir ff = .ok (ff, b) := by
    refine conform_idempotent E R L .function _ ir _ ff bf e3 ?_
    rcases hc .function with h | h | h
    · cases h
    · simp only [Files.get] at h; rw [hfn] at h; exact Or.inr (Or.inl h)
    · rw [hp] at h; exact Or.inr (Or.inr h)
  obtain ⟨b1, i1⟩ := i1; obtain ⟨b2, i2⟩ := i2; obtain ⟨b3, i3⟩ := i3
  obtain ⟨ma, rfl⟩ := conform_some E _ _ _ _ _ _ e1
  obtain ⟨mc, rfl⟩ := conform_some E _ _ _ _ _ _ e2
  obtain ⟨mf, rfl⟩ := conform_some E _ _ _ _ _ _ e3
  -- the interface read from the truth file after the first run is equivalent to the first one
  have ht : Holds E R t [names t] (({ argparse := some ma, cls := some mc, function := some mf } : Files).get t) ir := by
    have e0' := e0
    rw [hp t, hs t] at e0'
    cases t
    · simp only [Files.get]; exact truth_unchanged E R L .argparse _ ir _ _ ba e0' e1
    · simp only [Files.get]; exact truth_unchanged E R L .cls _ ir _ _ bc e0' e2
    · simp only [Files.get]; exact truth_unchanged E R L .function _ ir _ _ bf e0' e3
  obtain ⟨ir1, t1, t2⟩ := ht
  rw [← hp t] at t1
  have r1 := (conform_congr E R L .argparse [names .argparse] ir1 ir ma t2).trans i1
  have r2 := (conform_congr E R L .cls [names .cls] ir1 ir mc t2).trans i2
  have r3 := (conform_congr E R L .function [names .function] ir1 ir mf t2).trans i3
  rw [← hp] at r1 r2 r3
  rw [sync_of_ok E t (paths t) paths _ ir1 _ _ _ b1 b2 b3 t1 r1 r2 r3]
  exact ⟨rfl, rfl⟩

/-! ## The recorded defects, as theorems about the faithful model -/

/-- **The defect, in general** (`C12-function-never-rewritten` / `C12-argparse-never-rewritten`): for a top-level
    function / argparse target that is a (non-async) `FunctionDef`, *whatever* interface the truth holds, every
    completed `_conform_filename` leaves that very node as the named target — `visit_FunctionDef` returns it unchanged. -/
theorem function_target_never_rewritten (E : Emitters IR) (k : Kind) (K : String) (ir : IR) (m : Module) (n : Stmt)
    (hf : findInAst [K] m = .ok (some (.stmt n))) (hn : isSyncFn n = true) (f' : Option Module) (flag : Bool)
    (h : conform E k [K] ir (some m) = .ok (f', flag)) : ∃ m', f' = some m' ∧ findInAst [K] m' = .ok (some (.stmt n)) := by
  rw [findInAst_single] at hf
  simp only [Except.ok.injEq] at hf
  obtain ⟨m', c1, c2⟩ := conform_single_fn_keeps E k K ir m n hf hn f' flag h
  exact ⟨m', c1, by rw [findInAst_single, c2]⟩

/-- toy emitters satisfying `Laws` with `R := Eq`: an interface is a list of strings, emitted as the string statements
    of a class / function body -/
def toy : Emitters (List String) where
  parse := fun _ s _ _ => s.body.filterMap (fun x => match x with | .strExpr d => some d | _ => none)
  emit := fun k ir _ n => match k with
    | .cls => .cls n ["object"] [] (ir.map .strExpr) []
    | _ => .fn false n {} (ir.map .strExpr) [] none
  emitNew := fun k ir => match k with
    | .cls => .cls "ConfigClass" ["object"] [] (ir.map .strExpr) []
    | _ => .fn false "set_cli_args" {} (ir.map .strExpr) [] none

theorem toy_parse_emit (ir : List String) :
    List.filterMap ((fun x : Stmt => match x with | .strExpr d => some d | _ => none) ∘ Stmt.strExpr) ir = ir := by
  induction ir with
  | nil => rfl
  | cons a as ih => simp only [List.filterMap_cons, Function.comp_apply, ih]

/-- the toy emitters obey the assumed laws, so the negations below are not artefacts of bad emitters (non-vacuity of
    every theorem that takes `Laws`) -/
theorem toy_laws : Laws toy (· = ·) where
  refl := fun _ => rfl
  trans := fun _ _ _ h1 h2 => h1.trans h2
  roundTrip := by
    intro k ir ft n ft' n'
    cases k <;> simp only [toy, Stmt.body, List.filterMap_map] <;> exact toy_parse_emit ir
  emitCongr := by intro k ir ir' ft n h; rw [h]
  emitName := by intro k ir ft n; cases k <;> rfl
  emitKind := by intro k ir ft n; cases k <;> rfl

/-- the witness: class `K` (truth) with interface `[a, b]`, method `C.m` with `[q]`, argparse function with `[z]` -/
def witness : Files where
  cls := some [.cls "K" ["object"] [] [.strExpr "a", .strExpr "b"] []]
  function := some [.cls "C" ["object"] [] [.fn false "m" { args := [{ name := "self" }] } [.strExpr "q"] [] none] []]
  argparse := some [.fn false "set_cli_args" { args := [{ name := "argument_parser" }] } [.strExpr "z"] [] none]

def witnessPaths : Kind → List String
  | .cls => ["K"]
  | .function => ["C", "m"]
  | .argparse => ["set_cli_args"]

/-- what the model does on the witness: the run completes, reports both function-kind files `unchanged`, and leaves
    them exactly as they were -/
theorem witness_run :
    (sync toy .cls ["K"] witnessPaths witness).err = none ∧
    (sync toy .cls ["K"] witnessPaths witness).flags = [(.argparse, false), (.cls, false), (.function, false)] ∧
    targetIR toy .function ["C", "m"] (sync toy .cls ["K"] witnessPaths witness).files.function = .ok ["q"] ∧
    targetIR toy .argparse ["set_cli_args"] (sync toy .cls ["K"] witnessPaths witness).files.argparse = .ok ["z"] :=
  ⟨by decide, by decide, irIs_eq (by decide), irIs_eq (by decide)⟩

/-- **Negation of the full statement, function target**: with law-abiding emitters, `sync --truth class` leaves the
    method `C.m` holding `[q]` although the truth holds `[a, b]`. -/
theorem C12_not_full_function : ¬ C12_full toy (· = ·) := by
  intro h
  obtain ⟨_, h2, _, _⟩ := h .cls witnessPaths witness ["a", "b"] (irIs_eq (by decide))
  obtain ⟨ir', e1, e2⟩ := h2 .function
  have := witness_run.2.2.1
  simp only [witnessPaths, Files.get] at e1 this
  rw [this] at e1
  cases e1
  exact absurd e2 (by decide)

/-- **Negation of the full statement, argparse target** (same witness, the argparse function keeps `[z]`). -/
theorem C12_not_full_argparse : ¬ (∀ (t : Kind) (paths : Kind → List String) (s : Files) (ir0 : List String),
    targetIR toy t (paths t) (s.get t) = .ok ir0 →
      Holds toy (· = ·) .argparse (paths .argparse) ((sync toy t (paths t) paths s).files.get .argparse) ir0) := by
  intro h
  obtain ⟨ir', e1, e2⟩ := h .cls witnessPaths witness ["a", "b"] (irIs_eq (by decide))
  have := witness_run.2.2.2
  simp only [witnessPaths, Files.get] at e1 this
  rw [this] at e1
  cases e1
  exact absurd e2 (by decide)

/-- **A method target in an empty file is appended at top level on every run** (`C12-method-appended-at-top-level`):
    the second run is not a no-op, and the named target `C.m` never exists. -/
theorem dotted_append_not_idempotent :
    let s : Files := { witness with function := some [] }
    let r1 := sync toy .cls ["K"] witnessPaths s
    let r2 := sync toy .cls ["K"] witnessPaths r1.files
    r1.err = none ∧ r2.err = none ∧
    r1.files.function = some [.fn false "m" {} [.strExpr "a", .strExpr "b"] [] none] ∧
    r2.files.function = some [.fn false "m" {} [.strExpr "a", .strExpr "b"] [] none, .fn false "m" {} [.strExpr "a", .strExpr "b"] [] none] ∧
    lookup ["C", "m"] r2.files.function = none :=
  ⟨by decide, by decide, fileIs_eq (by decide), fileIs_eq (by decide), isNone_eq (by decide)⟩

/-- **A missing function file raises** (`C12-missing-function-file-typeerror`), after the argparse and class files
    were processed. -/
theorem missing_function_file_raises :
    (sync toy .cls ["K"] witnessPaths { witness with function := none }).err
      = some (.typeError "function() missing 2 required positional arguments") ∧
    (sync toy .cls ["K"] witnessPaths { witness with function := none }).flags = [(.argparse, false), (.cls, false)] := by
  decide

/-! ## non-vacuity of the positive theorems on a concrete state -/

/-- a state where the class target differs from a function truth: the run rewrites it, the class then holds the
    truth's interface, and a second run changes nothing (instances of `C12_partial_class` and `sync_idempotent`) -/
example :
    let s : Files := { witness with function := some [.expr "0", .fn false "f" {} [.strExpr "q"] [] none] }
    let paths : Kind → List String := fun k => match k with | .cls => ["K"] | .function => ["f"] | .argparse => ["set_cli_args"]
    let r := sync toy .function ["f"] paths s
    r.err = none ∧ r.flags = [(.argparse, false), (.cls, true), (.function, false)] ∧
    targetIR toy .cls ["K"] r.files.cls = .ok ["q"] ∧
    (sync toy .function ["f"] paths r.files).files.cls = some [.cls "K" ["object"] [] [.strExpr "q"] []] ∧
    r.files.cls = some [.cls "K" ["object"] [] [.strExpr "q"] []] :=
  ⟨by decide, by decide, irIs_eq (by decide), fileIs_eq (by decide), fileIs_eq (by decide)⟩

/-- non-vacuity of the shared-file loop: class truth `K` and an argparse target requested in the SAME (class) file — the
    function is appended to that file, after the class -/
example :
    let s : Files := { witness with argparse := none }
    let slot : Kind → Kind := fun k => match k with | .argparse => .cls | k => k
    let r := syncAt toy .cls ["K"] witnessPaths slot s
    r.err = none ∧ r.flags = [(.argparse, true), (.cls, false), (.function, false)] ∧
    r.files.cls = some [.cls "K" ["object"] [] [.strExpr "a", .strExpr "b"] [], .fn false "set_cli_args" {} [.strExpr "a", .strExpr "b"] [] none] :=
  ⟨by decide, by decide, fileIs_eq (by decide)⟩

end C12
