import CddVerif.Model.Loops
import CddVerif.Gen.Loops
/-!
# C11 — every parse, emit and doctrans call terminates

* `Gen.Loops` (REGENERATED from /repo on every run) lists every `while` statement and every directly
  self-recursive function of the non-test code by digest; `all_while_registered` / `all_recursive_registered`
  say that each of them is one of the loops modelled below / one of the reviewed structural recursions.
* Each modelled loop is a `Loop.WhileLoop`: a step function with a measure that provably decreases
  (Lean accepts `run` only because of that proof), and the number of header evaluations is bounded
  by `measure + 1`, which is linear in the size of the input.
-/
namespace C11
open Py Loop Loops DocUtils

/-- digest → model, for every `while` loop the theorems below cover -/
def registry : List (Nat × String) := [
  (36883699187282385,  "Loops.skipLoop   — cdd/docstring/emit.py:docstring  while next_nl > -1"),
  (89752697760091395,  "Loops.unionLoop  — parse_utils.py:_union_literal_from_sentence_phase0  while i < len(sentence)"),
  (536726398722599397, "Loops.findLoop   — ast_utils.py:find_in_ast  while len(current_search)"),
  (361617416710152498, "DocUtils.loopC   — docstring_utils.py:_get_token_last_idx_if_no_next_token  while line_end < len(doc_str)"),
  (409266292604920454, "DocUtils.loopA   — docstring_utils.py:_get_token_last_idx  while idx != 0 and doc_str[idx] != '\\n'"),
  (61018591408579884,  "DocUtils.loopB   — docstring_utils.py:_get_token_last_idx  while i < len(doc_str) and doc_str[i] != '\\n'")]

/-- reviewed direct recursions: each recurses on a strict sub-structure of a finite value -/
def recursionRegistry : List (Nat × String) := [
  (407062819988870298, "exmod_utils.get_module_contents — recurses once per re-exported module path component (finite tree of files)"),
  (247530665374534853, "ast_utils.get_value — recurses on a child node of a finite AST"),
  (7762940744700125,   "ast_utils.cmp_ast — recurses on child nodes / list elements of finite ASTs"),
  (728761781496678597, "parser_utils.infer — recurses on the single argument after unwrapping one level")]

/-- reviewed other sources of unbounded iteration (infinite iterators, two-argument `iter`, uses of `re`, `for` over a
    collection grown in its body): each is consumed a bounded number of times.  There is no use of the `re` module in
    the non-test code, so a regular expression that appears is an unregistered site. -/
def otherRegistry : List (Nat × String) := [
  (1094129384413074024, "function/parse.py:function — list(islice(cycle((None,)), diff)): islice takes exactly `diff` items"),
  (256932361401258789,  "pure_utils.count_iter_items — count() zipped with the (finite) iterable into a zero-length deque, then one next()")]

/-- **Table theorem:** every `while` statement of the current non-test code is a modelled loop. -/
theorem all_while_registered :
    Gen.Loops.whileLoops.all (fun d => registry.any (fun r => r.1 == d)) = true := by decide
/-- and nothing registered has disappeared (the table and the registry are the same set) -/
theorem registry_all_present :
    registry.all (fun r => Gen.Loops.whileLoops.any (fun d => r.1 == d)) = true := by decide
theorem all_recursive_registered :
    Gen.Loops.recursiveFns.all (fun d => recursionRegistry.any (fun r => r.1 == d)) = true := by decide
/-- every infinite iterator / regular expression / self-growing `for` of the current non-test code is a reviewed site -/
theorem all_other_registered :
    Gen.Loops.otherSites.all (fun d => otherRegistry.any (fun r => r.1 == d)) = true := by decide

/-! ### per-loop termination with a linear bound on header evaluations
(`run` is total — its definition carries the termination proof `dec` — so "returns" is by construction;
the theorems bound *how many* header evaluations happen) -/

/-- emit.docstring skip loop: at most `|s| + 1` header evaluations -/
theorem skip_bound (s : Str) : (skipRun s).2.2 ≤ s.length + 1 := by
  have := (skipLoop s).run_count_le (0, findI s ['\n'])
  simpa [skipRun, skipLoop] using this

/-- `_get_token_last_idx`, backward scan: at most `max idx (|s| + 1 + idx) + 1` evaluations; in particular
    `≤ |s| + 1` from any valid non-negative index -/
theorem loopA_bound (s : S) (idx : Int) (h0 : 0 ≤ idx) (h1 : idx < s.size) :
    ((loopA s).run idx).2.2 ≤ s.size + 1 := by
  have := (loopA s).run_count_le idx
  have hm : (loopA s).measure idx ≤ s.size := by
    simp only [loopA, h0, if_true]; omega
  omega
/-- same loop started at a negative index (Python indexes from the end; it stops with IndexError at the latest) -/
theorem loopA_bound_neg (s : S) (idx : Int) (h0 : idx < 0) :
    ((loopA s).run idx).2.2 ≤ s.size + 1 := by
  have := (loopA s).run_count_le idx
  have hm : (loopA s).measure idx ≤ s.size := by
    have : ¬ (0 ≤ idx) := by omega
    simp only [loopA, this, if_false]; omega
  omega

/-- `_get_token_last_idx`, forward scan -/
theorem loopB_bound (s : S) (i : Int) (h0 : 0 ≤ i) : ((loopB s).run i).2.2 ≤ s.size + 1 := by
  have := (loopB s).run_count_le i
  have hm : (loopB s).measure i ≤ s.size := by simp only [loopB, n]; omega
  omega

/-- `_get_token_last_idx_if_no_next_token` -/
theorem loopC_bound (s : S) (st : CState) : ((loopC s).run st).2.2 ≤ s.size + 1 := by
  have := (loopC s).run_count_le st
  have hm : (loopC s).measure st ≤ s.size := by simp only [loopC]; omega
  omega

/-- `_union_literal_from_sentence_phase0` -/
theorem union_bound (s : Array Char) (st : UState) : ((unionLoop s).run st).2.2 ≤ s.size + 1 := by
  have := (unionLoop s).run_count_le st
  have hm : (unionLoop s).measure st ≤ s.size := by simp only [unionLoop]; omega
  omega

/-- `find_in_ast`: whatever the body does (any oracle), at most `len(search) + 1` header evaluations -/
theorem find_bound (k : Nat) (oracle : List FindStep) : (findLoop.run (k, oracle)).2.2 ≤ k + 1 :=
  findLoop.run_count_le (k, oracle)

/-- the whole of `_get_token_last_idx`: all three loops together stay linear -/
theorem tokenLastIdx_total (s : S) : ∃ r, tokenLastIdxCount s = r := ⟨_, rfl⟩

/-! ### non-vacuity and the repaired defect -/

/-- the input that hung the pinned code: the repaired loop (this model) takes 2 header evaluations -/
example : ((skipLoop [' ', ' ', '\n', 'f', 'o', 'o']).runFuel 10 (0, 2)).map (·.2.2) = some 2 := by decide
/-- the pinned loop (`next_nl` never updated) as a step function: its state never changes … -/
def pinnedStep (s : Str) (st : Nat × Int) : Out (Nat × Int) :=
  if st.2 > -1 then
    if !isspace (slice s (some (st.1 : Int)) (some st.2)) then .exitBreak st else .next st
  else .exitCond
def pinnedRun (s : Str) : Nat → (Nat × Int) → Option Exit
  | 0, _ => none
  | f + 1, st => match pinnedStep s st with
    | .next st' => pinnedRun s f st' | .exitCond => some .cond | .exitBreak _ => some .brk | .raise => some .raise
/-- … so on `"  \nfoo"` no amount of fuel lets it finish: this is the defect repaired by commit 68ea6c9 -/
theorem pinned_never_returns (fuel : Nat) : pinnedRun [' ', ' ', '\n', 'f', 'o', 'o'] fuel (0, 2) = none := by
  induction fuel with
  | zero => rfl
  | succ f ih =>
    have : pinnedStep [' ', ' ', '\n', 'f', 'o', 'o'] (0, 2) = .next (0, 2) := by decide
    simp only [pinnedRun, this]; exact ih

end C11
