import CddVerif.Proofs.ImportsMono
import CddVerif.Properties.C18
/-!
# C18 — "in any order": every import history of any length succeeds (`load_mono` lift of `single_ok`)

`Properties/C18.lean` proves by kernel evaluation that every public module imports in a fresh interpreter
(`single_ok`); the pair theorems cover all histories of length 2.  Here the single-module fact is lifted to
**every finite sequence of imports of public modules, with repetitions, of any length**, by a monotone-simulation
proof about the abstract machine `Imports.loadChain / importSeq / fresh` (`Proofs/ImportsMono.lean`).

The lift needs decidable well-formedness conditions on the table (`Imports.Mono.staticOk`), re-checked on the
regenerated table by `decide +kernel` (`static_ok`).  For a parent table `par`:
* (i)   every chain (public chains, `import` / `from` chains) is a path of the package tree: its head is a root
        and every later element has the element before it as its parent (`pathOk`);
* (ii)  `(parent, short name)` determines the module (`uniqKids`);
* (iii) an item `(n, some ch')` of `from chain import n` has `ch' = chain ++ [x]`, `short x = n`, `par x = last chain`;
* (iv)  the body of a package never binds the short name of one of its own submodules (`kidBits` test in `evOk`);
* (v)   every bound name and every short name is `< stride` (the `names` encoding is injective).
`allSingles_not_enough` shows that without (iv) the statement is false for the machine.
-/
namespace C18
open Imports Imports.Mono

/-- parent table of the generated import table (computed from its chains; checked by `static_ok`) -/
def par : Par := mkPar cfg Gen.Imports.chains

/-- the regenerated table satisfies the static side conditions (i)–(v) -/
theorem static_ok : staticOk cfg par Gen.Imports.chains = true := by decide +kernel

/-- **C18 (any order, any length), generic form:** for every table `c`, parent table `par`, fuel `f` and list of
chains: if the table is well-formed (`staticOk`, decidable) and every chain imports in a fresh interpreter with fuel
`f`, then every history `h` made of these chains (any length, repetitions allowed) imports in a fresh interpreter
with the same fuel. -/
theorem histories_ok_generic (c : Cfg) (par : Par) (f : Nat) (chains : List (List Nat))
    (hst : staticOk c par chains = true) (hall : allSingles c f chains = true) :
    ∀ h : List (List Nat), (∀ ch ∈ h, ch ∈ chains) → okB (fresh c f h) = true :=
  histories_ok c par f chains hst hall

/-- **C18 (any order, any length):** on the regenerated table, every finite sequence of imports of public modules
succeeds in a fresh interpreter (full statement of the "in any order" clause for the abstract machine). -/
theorem all_histories_ok :
    ∀ h : List (List Nat), (∀ ch ∈ h, ch ∈ Gen.Imports.chains) → okB (fresh cfg fuel h) = true :=
  histories_ok cfg par fuel Gen.Imports.chains static_ok single_ok

/-- … and at the end every module named in the history (with all its parent packages) is fully initialised:
it is in `sys.modules`, every event of its body is fulfilled in the final state (names bound, imported modules
present, imported names present) and it is an attribute of its parent package. -/
theorem all_histories_done (h : List (List Nat)) (hmem : ∀ ch ∈ h, ch ∈ Gen.Imports.chains) :
    ∃ s n, fresh cfg fuel h = .ok (s, n) ∧ ∀ ch ∈ h, ∀ m ∈ ch, Done cfg par s n m :=
  histories_done cfg par fuel Gen.Imports.chains static_ok single_ok h hmem

/-- **load_mono** on the regenerated table: from any quiescent state (nothing in progress, every loaded module
finished — e.g. the state after any successful history), importing any public module succeeds with the same fuel
and the state stays quiescent and only grows. -/
theorem load_mono_table {ch : List Nat} (hch : ch ∈ Gen.Imports.chains) {s n : Nat} (q : Quiescent cfg par s n) :
    ∃ s' n', loadChain cfg fuel s n none ch = .ok (s', n') ∧ Quiescent cfg par s' n' ∧ Sub s s' ∧ Sub n n' ∧
      seenAll s' ch :=
  have st := static_of_ok static_ok
  load_mono st (st.chains ch hch) (single_ok_each ch hch) q

/-! ## non-vacuity -/

/-- a concrete history of three modules (`cdd.shared.ast_utils`, `cdd.__main__`, a depth-5 module) on the generated
table, evaluated by the kernel … -/
example : okB (fresh cfg fuel [[0, 62, 64], [0, 1], [0, 14, 21, 26, 27]]) = true := by decide +kernel

/-- … and the same history (with a repetition) obtained from the theorem -/
example : okB (fresh cfg fuel [[0, 62, 64], [0, 1], [0, 14, 21, 26, 27], [0, 1]]) = true :=
  all_histories_ok _ (by decide)

/-- a hand-made table with an import cycle (`p.a` imports `p.b`, `p.b` imports `p.a` and takes a name from the
package `p`): modules `0 = p`, `1 = p.a`, `2 = p.b`; short names `10, 11, 12` -/
def cyc : Cfg :=
  { tbl := [[.bind 1], [.imp [0, 2], .bind 2], [.imp [0, 1], .frm [0] [(1, none), (11, some [0, 1])], .bind 3]],
    short := [10, 11, 12], stride := 16 }

/-- the hypotheses of the generic theorem hold on it … -/
example : staticOk cyc [none, some 0, some 0] [[0], [0, 1], [0, 2]] = true ∧
    allSingles cyc 20 [[0], [0, 1], [0, 2]] = true := by decide +kernel

/-- … so every history succeeds; one of them evaluated -/
example : okB (fresh cyc 20 [[0, 2], [0, 1], [0, 2], [0]]) = true := by decide +kernel

/-! ## the side condition (iv) cannot be dropped -/

/-- modules `0 = a` (package, body `import d; b = …`), `1 = a.b` (binds `k`), `2 = d` (`from a import b`),
`3 = e` (`import a; a.b.k` at module level); short names `10, 11, 12, 13`; name `1 = k`.
The body of `a` binds the short name `11` of its own submodule `a.b`, violating (iv). -/
def bad : Cfg :=
  { tbl := [[.imp [2], .bind 11], [.bind 1], [.frm [0] [(11, some [0, 1])]], [.imp [0], .use [(1, 1, none)]]],
    short := [10, 11, 12, 13], stride := 16 }

/-- **negation of the unconditional lift:** every module of `bad` imports in a fresh interpreter, yet the history
`d, e` fails (after `d`, `a` is finished with the attribute `b` bound by its own body, so `a.b` is never loaded and
`a.b.k` raises) — `allSingles` alone does not imply that all histories succeed. -/
theorem allSingles_not_enough :
    allSingles bad 20 [[0], [0, 1], [2], [3]] = true ∧ okB (fresh bad 20 [[2], [3]]) = false := by decide +kernel

/-- `staticOk` rejects `bad` (for its only sensible parent table) -/
example : staticOk bad [none, some 0, none, none] [[0], [0, 1], [2], [3]] = false := by decide +kernel

end C18
