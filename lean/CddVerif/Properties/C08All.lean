import CddVerif.Properties.C08Whole
import CddVerif.Properties.C08Google
import CddVerif.Properties.C08Numpy
import CddVerif.Properties.C08Iface
import CddVerif.Properties.C02Rest
/-! C08 — aggregator of the property's theorem files (what the check builds and audits):
`C08` (normaliser idempotence), `C08Whole` (ReST whole-docstring fixpoint), `C08Google`, `C08Numpy`, `C08Iface` (class / pydantic / function / argparse hops of the C02 interface model). -/
