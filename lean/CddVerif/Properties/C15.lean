import CddVerif.Proofs.DocSplit
/-!
# C15 — docstring prose outside the parameter section is preserved

Reading (DESIGN.md §4 C15, §7): `parse_docstring_into_header_args_footer` returns the *current, re-indented* argument
section, so "concatenating the three parts gives back the original" is stated on what the split determines —
the index pair `(start, last)` computed by `_get_token_start_idx` / `_get_token_last_idx`: the three slices
`original[:start]`, `original[start:last]`, `original[last:]` (with the code's `-1` conventions).
-/
namespace C15
open Py DocUtils DocSplit

/-- the concatenation identity for one docstring and one index pair -/
def Partitions (d : Str) (s l : Int) : Prop :=
  let p := rawParts d s l
  p.1.getD [] ++ p.2.1 ++ p.2.2.getD [] = d

/-- **Slice algebra (every string, every index pair):** the three slices concatenate to the original whenever the
    indices are ordered (`start ≤ last`) or one of them is "not found" (`-1`). -/
theorem slice_partition (d : Str) (s l : Int) (hl : -1 ≤ l) (h : s ≤ -1 ∨ l = -1 ∨ s ≤ l) : Partitions d s l := by
  unfold Partitions rawParts
  by_cases hs : s > -1
  · have hs0 : 0 ≤ s := by omega
    by_cases hl1 : l = -1
    · subst hl1
      simp only [hs, if_true, Option.getD_some, show ¬ ((-1 : Int) > -1) by omega, if_false,
        show ((-1 : Int) != -1) = false by decide, Bool.false_eq_true, Option.getD_none, List.append_nil]
      rw [slice_to d s hs0]
      have : slice d (some s) none = d.drop s.toNat := slice_from d s hs0
      rw [this, List.take_append_drop]
    · have hl0 : 0 ≤ l := by omega
      have hsl : s ≤ l := by omega
      have hne : (l != -1) = true := by simpa using hl1
      simp only [hs, if_true, Option.getD_some, show l > -1 by omega, hne]
      rw [slice_to d s hs0, slice_mid d s l hs0 hl0, slice_from d l hl0]
      exact take_mid_drop d s.toNat l.toNat (by omega)
  · simp only [hs, if_false, Option.getD_none, List.nil_append]
    by_cases hl1 : l = -1
    · subst hl1
      simp only [show ¬ ((-1 : Int) > -1) by omega, if_false, show ((-1 : Int) != -1) = false by decide,
        Bool.false_eq_true, Option.getD_none, List.append_nil]
      exact slice_all d
    · have hl0 : 0 ≤ l := by omega
      have hne : (l != -1) = true := by simpa using hl1
      simp only [show l > -1 by omega, if_true, hne, Option.getD_some]
      rw [slice_to d l hl0, slice_from d l hl0, List.take_append_drop]

/-- the hypothesis is needed: with `start > last ≥ 0` header and footer overlap (negative example, documented) -/
example : ¬ Partitions ['a', 'b', 'c'] 2 1 := by unfold Partitions; decide

/-- The full statement of clause 1 for the real split: for *every* docstring on which the index walkers return, -/
def C15_split_full : Prop :=
  ∀ d s l, idxPair d = .ok (s, l) → Partitions d s l
/-- … which follows from `slice_partition` once the walkers' results are ordered.  This is what is proved; the
    ordering itself (`start ≤ last` or `-1`) is **observed**, not proved, by the correspondence run (exhaustive over
    all token strings up to length 3/4 and generated header+section+footer documents): the only strings found with
    `start > last` take the `Raises:` short-circuit and are outside the statement's domain (no generated section). -/
theorem split_partial (d : Str) (s l : Int) (_ : idxPair d = .ok (s, l))
    (hl : -1 ≤ l) (hord : s ≤ -1 ∨ l = -1 ∨ s ≤ l) : Partitions d s l :=
  slice_partition d s l hl hord

/-! (The raw string `"\n\nRaises:\n"` has `start = 2 > last = 1`; it is replayed against the model driver and the real code
    by the harness as a documented out-of-domain example — the walkers are `Id.run` loops that `decide` cannot evaluate.) -/

/-! ### re-assembly keeps the header as a prefix and the footer as a suffix -/

/-- **`header_args_footer_to_str` never touches the header:** the result starts with the header, byte for byte. -/
theorem haf_header_prefix (h a f : Str) : h <+: hafToStr h a f := by
  unfold hafToStr
  simp only [List.append_assoc]
  exact List.prefix_append _ _

/-- … and ends with the footer, byte for byte. -/
theorem haf_footer_suffix (h a f : Str) : f <:+ hafToStr h a f := by
  unfold hafToStr
  exact List.suffix_append _ _

/-- **Conversion keeps the header prose (every docstring pair):** `ensure_doc_args_whence_original(current, original)`
    returns either the original itself or a string that starts with the original's header `original[:start]` —
    so every header line is still present, in order, before the parameter section — and ends with its footer. -/
theorem whence_preserves_header (cur org r : Str) (h : whence cur org = .ok r) :
    r = org ∨ ∃ hd a ft, parseHAF cur org = .ok (hd, a, ft) ∧ (hd.getD []) <+: r ∧ (ft.getD []) <:+ r := by
  unfold whence at h
  split at h
  · left; cases h; rfl
  · right
    cases hp : parseHAF cur org with
    | error e => rw [hp] at h; cases h
    | ok p =>
      obtain ⟨hd, a, ft⟩ := p
      rw [hp] at h
      cases h
      exact ⟨hd, a, ft, rfl, haf_header_prefix _ _ _, haf_footer_suffix _ _ _⟩

/-- the header returned by the split is `original[:start]` and the footer `original[last:]`: prefix / suffix of the original -/
theorem rawParts_prefix_suffix (d : Str) (s l : Int) :
    (rawParts d s l).1.getD [] <+: d ∧ (rawParts d s l).2.2.getD [] <:+ d := by
  unfold rawParts
  constructor
  · split
    · rename_i hs
      simp only [Option.getD_some]
      rw [slice_to d s (by omega)]; exact List.take_prefix _ _
    · simp
  · by_cases hl : l = -1
    · subst hl; simp
    · have hne : (l != -1) = true := by simpa using hl
      simp only [hne, if_true, Option.getD_some]
      unfold slice
      simp only
      rw [List.take_of_length_le (by simp)]
      exact List.drop_suffix _ _

/-- non-vacuity of `slice_partition` on a real three-part split (indices as the walkers return them for this text) -/
example : Partitions ['H', '.', '\n', '\n', ':', 'p', ' ', 'a', ':', ' ', 'b', '\n', '\n', 'F'] 4 12 ∧
    (rawParts ['H', '.', '\n', '\n', ':', 'p', ' ', 'a', ':', ' ', 'b', '\n', '\n', 'F'] 4 12).1 = some ['H', '.', '\n', '\n'] := by
  constructor
  · exact slice_partition _ 4 12 (by decide) (Or.inr (Or.inr (by decide)))
  · decide

end C15
