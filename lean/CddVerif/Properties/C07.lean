import CddVerif.Proofs.DocTransCst
import CddVerif.Proofs.DocTransHeader
import CddVerif.Proofs.DocTransAst
import CddVerif.Properties.C09
/-!
# C07 — doctrans changes only docstrings and annotations, never the program

Property theorems only.  Models: `CddVerif/Model/DocTransCst.lean` (CST write-back, effect trace) and
`CddVerif/Model/DocTransAst.lean` (AST-level `DocTrans`); helper lemmas in `CddVerif/Proofs/DocTrans*.lean`.

Clauses of the statement and where they are:

* (i) **frame** — `frame_residue`, `frame_sublist`, `frame_other_nodes`, `frame_comments`, `frame_other_text`,
  `parser_docstr_only_after_def` (full strength: every node list, every edit list, every header-parse oracle);
* **async** — `async_docstring_like_function`, `async_edit_like_function`: an `async def` is treated exactly like a `def`;
* (ii) **erase** — `erase_docTrans_partial` on the stated region, the full statement `erase_docTrans_full` is
  *false* for the code as it is: `erase_docTrans_not_full_bare_annotation`, `erase_docTrans_not_full_double_string`,
  `erase_docTrans_not_full_bare_name` (all only at the AST level: the CST write-back never writes these changes to the file — that is clause (i));
* (iii) **failure atomicity** — `failure_atomic`, `failure_leaves_file`, `write_is_last`, `no_change_no_write`;
  `early_open_not_atomic` shows the statement is falsified as soon as the file is opened for writing before a fallible step;
* (iv) **header re-synthesis** — `header_outside_parens_preserved`, `header_locate_canonical`, `header_resynth_partial`,
  `header_return_paren_preserved`; the full statement `header_full` is *false* for the code as it is:
  `header_not_full_default/_vararg/_kwonly/_kwarg/_posonly`, `header_return_not_preserved_stray_arrow`,
  `header_wrong_paren_decorator`.
-/
namespace C07
open Py Cst DocTransCst

/-! ## (i) frame -/

/-- **C07 (i), frame.**  Whatever the node list, the edits and the header-parse oracle: if `doctransify_cst`
    returns, then after removing from input and output the headers matched by some edit (`find_cst_at_ast`'s test)
    and the docstring-flagged `TripleQuoted` run directly after them, the two lists are *equal* — every other node
    is carried over unchanged and in order. -/
theorem frame_residue (parse : HeaderParser) (nodes : List Node) (edits : List FnEdit) (out : List Node)
    (h : doctransifyCst parse nodes edits = .ok out) :
    residue (touched edits) false out = residue (touched edits) false nodes :=
  residue_loop parse (touched edits) false edits (fun e he => touched_selector edits e he) nodes out h

/-- the residue is a sub-list (same elements, same order) of the list it is taken from -/
theorem frame_sublist (m : Node → Bool) (b : Bool) (xs : List Node) : (residue m b xs).Sublist xs :=
  residue_sublist m b xs

/-- **C07 (i), consequence.**  Every node that is neither a class / function header nor a docstring-flagged
    `TripleQuoted` survives unchanged, in order (no reference to the edits at all). -/
theorem frame_other_nodes (parse : HeaderParser) (nodes : List Node) (edits : List FnEdit) (out : List Node)
    (h : doctransifyCst parse nodes edits = .ok out) :
    out.filter (fun n => !isDefKind n.kind && !isDocTQ n) = nodes.filter (fun n => !isDefKind n.kind && !isDocTQ n) := by
  have hp : ∀ n, (!isDefKind n.kind && !isDocTQ n) = true → touched edits n = false ∧ isDocTQ n = false := by
    intro n hn
    simp only [Bool.and_eq_true, Bool.not_eq_true'] at hn
    refine ⟨?_, hn.2⟩
    cases ht : touched edits n with
    | false => rfl
    | true => have := touched_isDefKind edits n ht; simp [hn.1] at this
  rw [← filter_residue (touched edits) _ hp false out, ← filter_residue (touched edits) _ hp false nodes,
    frame_residue parse nodes edits out h]

/-- **C07 (i), comments.**  All comment nodes are still present, unchanged and in order. -/
theorem frame_comments (parse : HeaderParser) (nodes : List Node) (edits : List FnEdit) (out : List Node)
    (h : doctransifyCst parse nodes edits = .ok out) :
    out.filter (fun n => n.kind == "CommentStatement") = nodes.filter (fun n => n.kind == "CommentStatement") := by
  have hp : ∀ n : Node, (n.kind == "CommentStatement") = true → touched edits n = false ∧ isDocTQ n = false := by
    intro n hn
    have hk : n.kind = "CommentStatement" := by simpa using hn
    constructor
    · cases ht : touched edits n with
      | false => rfl
      | true => have := touched_isDefKind edits n ht; simp [hk, isDefKind] at this
    · simp [isDocTQ, hk]
  rw [← filter_residue (touched edits) _ hp false out, ← filter_residue (touched edits) _ hp false nodes,
    frame_residue parse nodes edits out h]

/-- **C07 (i), text.**  The text of everything that is not a header or a docstring is byte-identical, in order. -/
theorem frame_other_text (parse : HeaderParser) (nodes : List Node) (edits : List FnEdit) (out : List Node)
    (h : doctransifyCst parse nodes edits = .ok out) :
    (out.filter (fun n => !isDefKind n.kind && !isDocTQ n)).map (·.value)
      = (nodes.filter (fun n => !isDefKind n.kind && !isDocTQ n)).map (·.value) := by
  rw [frame_other_nodes parse nodes edits out h]

/-- In a list produced by `cst_parse`, the docstring flag is set only on the node directly after a class /
    function header: the "docstring-flagged run" of `residue` is the docstring slot (at most one node). -/
theorem parser_docstr_only_after_def (src : Str) : DocAfterDef false (cstParse src) :=
  parserLoop_docAfterDef 1 false _

/-- non-vacuity of (i): a definition whose docstring is replaced and a comment that is carried over -/
example :
    let src : Str := ['d','e','f',' ','f','(',')',':','\n',' ','"','"','"','a','"','"','"','\n',' ','#',' ','c','\n']
    let e : FnEdit := { kind := .fn, name := ['f'], lineno := 1, body0 := .str ['b'] }
    (doctransifyCst (fun _ => .ok {}) (cstParse src) [e]).toOption.map (fun ns => (ns.map (·.kind), ns == cstParse src))
      = some (["FunctionDefinitionStart", "TripleQuoted", "CommentStatement", "UnchangingLine"], false) := by
  decide

/-! ## docstrings of `async def` -/

/-- **`async def` is treated like `def`.**  The docstring step (`maybe_replace_doc_str_in_function_or_class` with
    `get_doc_str`) yields the same node list — and raises the same exception — whether the definition is an
    `AsyncFunctionDef` or a `FunctionDef`; only the type name in the debug line differs.  (Before the repair of
    `get_doc_str` an `async def` "had no docstring" and the existing one was deleted.) -/
theorem async_docstring_like_function (nodes : List Node) (idx : Nat) (e : FnEdit) :
    (replaceDoc nodes idx { e with kind := .asyncFn }).map (·.1) = (replaceDoc nodes idx { e with kind := .fn }).map (·.1) := by
  unfold replaceDoc
  cases newDocOf e.body0 with
  | error x => rfl
  | ok nd =>
    simp only [bind, Except.bind]
    cases nd <;> cases isDocTQ ((nodes[idx + 1]?).getD emptyLine) <;> simp only [] <;> try rfl
    all_goals (split <;> try rfl)
    all_goals (split <;> rfl)

/-- the whole iteration for a definition: same nodes / same exception for `async def` and `def` -/
theorem async_edit_like_function (parse : HeaderParser) (nodes : List Node) (e : FnEdit) :
    (applyEdit parse nodes { e with kind := .asyncFn }).2 = (applyEdit parse nodes { e with kind := .fn }).2 := by
  have hm : ∀ n, matchesNode { e with kind := .asyncFn } n = matchesNode { e with kind := .fn } n := fun _ => rfl
  have hfrom : ∀ (ns : List Node) (i : Nat),
      findCstFrom { e with kind := .asyncFn } ns i = findCstFrom { e with kind := .fn } ns i := by
    intro ns
    induction ns with
    | nil => intro i; rfl
    | cons n rest ih => intro i; simp only [findCstFrom, hm, ih]
  have hfind : findCst { e with kind := .asyncFn } nodes = findCst { e with kind := .fn } nodes := hfrom nodes 0
  have hdoc := async_docstring_like_function nodes
  unfold applyEdit
  rw [hfind]
  cases findCst { e with kind := .fn } nodes with
  | none => rfl
  | some idx =>
    have hd := hdoc idx e
    simp only
    cases ha : replaceDoc nodes idx { e with kind := .asyncFn } with
    | error x =>
      cases hf : replaceDoc nodes idx { e with kind := .fn } with
      | error y => rw [ha, hf] at hd; simp [Except.map] at hd; simp [hd]
      | ok r => rw [ha, hf] at hd; simp [Except.map] at hd
    | ok r =>
      cases hf : replaceDoc nodes idx { e with kind := .fn } with
      | error y => rw [ha, hf] at hd; simp [Except.map] at hd
      | ok r' =>
        rw [ha, hf] at hd
        simp only [Except.map, Except.ok.injEq] at hd
        obtain ⟨n1, l1⟩ := r
        obtain ⟨n2, l2⟩ := r'
        simp only at hd
        subst hd
        have hk1 : (({ e with kind := DefKind.asyncFn } : FnEdit).kind == DefKind.cls) = false := rfl
        have hk2 : (({ e with kind := DefKind.fn } : FnEdit).kind == DefKind.cls) = false := rfl
        simp only [hk1, hk2, Bool.false_eq_true, if_false]
        cases n1[idx]? with
        | none => rfl
        | some hdr =>
          simp only
          cases parse (reindentWithPass hdr.value) with
          | error x => rfl
          | ok cur =>
            simp only
            cases replaceReturn cur.returns e.sig.returns hdr.value with
            | none =>
              simp only
              cases replaceArgs cur.args e.sig.args ((n1[idx]?).getD hdr).value with
              | error x => rfl
              | ok r2 => rfl
            | some rv =>
              obtain ⟨v, d⟩ := rv
              simp only
              cases replaceArgs cur.args e.sig.args (((setAt n1 idx (headerNode hdr v))[idx]?).getD hdr).value with
              | error x => rfl
              | ok r2 => rfl

/-- an `async def` whose docstring the AST stage left alone keeps it (the node list is unchanged) -/
example :
    let src : Str := ['a','s','y','n','c',' ','d','e','f',' ','f','(',')',':','\n',' ','"','"','"','a','"','"','"','\n']
    let e : FnEdit := { kind := .asyncFn, name := ['f'], lineno := 1, body0 := .str ['a'] }
    (doctransifyCst (fun _ => .ok {}) (cstParse src) [e]).toOption.map (fun ns => ns == cstParse src) = some true := by
  decide

/-! ## (ii) erase on the AST-level model -/

open DocTransAst in
/-- the full statement of clause (ii) -/
def erase_docTrans_full : Prop :=
  ∀ (o : Oracle) (ta : Bool) (m m' : PyAst.Module), docTrans o ta m = .ok m' → erase m' = erase m

open DocTransAst in
/-- **C07 (ii), partial.**  For every oracle (whatever docstring text / types the docstring machinery chooses):
    `erase (DocTrans m) = erase m`, provided no function body starts with two string expressions or with a bare name /
    `None` expression statement, and — when types are moved *out of* annotations — there is no bare declaration `x: T`.
    Missing from the full statement: exactly those three regions (negations below). -/
theorem erase_docTrans_partial (o : Oracle) (ta : Bool) (m m' : PyAst.Module)
    (hreg : okList ta m = true) (h : docTrans o ta m = .ok m') : erase m' = erase m :=
  (erase_docTransList o ta m [] m' hreg h).1

open DocTransAst PyAst in
/-- an oracle that keeps everything -/
def idOracle : Oracle :=
  { newDoc := fun _ d => d, paramTyp := fun _ _ => none, returnTyp := fun _ => none, annTyp := fun _ _ a => a,
    assignTyp := fun _ _ => none }

open DocTransAst PyAst in
/-- **C07 (ii), negation 1.**  `--no-type-annotations` turns the bare declaration `x: int` into the assignment
    `x = '```(None)```'` (`visit_AnnAssign`: `value=set_value(none_types[-1]) if node.value is None`). -/
theorem erase_docTrans_not_full_bare_annotation : ¬ erase_docTrans_full := by
  intro h
  have := h idOracle false [.ann "x" "int" none] [.assign ["x"] "'```(None)```'"] rfl
  simp [erase, eraseList, eraseStmt] at this

open DocTransAst PyAst in
/-- **C07 (ii), negation 2.**  Deleting the docstring of a function whose next statement is a string expression
    promotes that statement to docstring. -/
theorem erase_docTrans_not_full_double_string : ¬ erase_docTrans_full := by
  intro h
  have := h { idOracle with newDoc := fun _ _ => none } true
    [.fn false "f" {} [.strExpr " ", .strExpr "second", .other "pass"] [] none]
    [.fn false "f" {} [.strExpr "second", .other "pass"] [] none] rfl
  simp [erase, eraseList, eraseStmt, eraseBodyList] at this

open DocTransAst PyAst in
/-- **C07 (ii), negation 3.**  `set_docstring` overwrites a first statement that is a bare name (or `None`):
    `def f(): None; pass` loses the expression statement `None` when a docstring is generated. -/
theorem erase_docTrans_not_full_bare_name : ¬ erase_docTrans_full := by
  intro h
  have := h { idOracle with newDoc := fun _ _ => some "d" } true
    [.fn false "f" {} [.expr "None", .other "pass"] [] none]
    [.fn false "f" {} [.strExpr "d", .other "pass"] [] none] rfl
  simp [erase, eraseList, eraseStmt, eraseBodyList] at this

open DocTransAst PyAst in
/-- non-vacuity of (ii): a module inside the region on which `DocTrans` really changes docstring, annotations, return type -/
example :
    let m : Module := [.fn false "f" { args := [{ name := "a" }], defaults := ["1"] } [.strExpr "old", .other "return a"] ["dec"] none]
    let o : Oracle := { idOracle with newDoc := fun _ _ => some "new", paramTyp := fun _ _ => some "int", returnTyp := fun _ => some (some "str") }
    okList true m = true ∧
    docTrans o true m = .ok [.fn false "f" { args := [{ name := "a", ann := some "int" }], defaults := ["1"] }
      [.strExpr "new", .other "return a"] ["dec"] (some "str")] := by
  constructor <;> rfl

/-! ## (iii) failure atomicity -/

def isWrite : Effect → Bool
  | .write _ => true
  | _ => false

/-- the exception a run ended with, if any -/
def errOf : Except Err Unit → Option Err
  | .error x => some x
  | .ok _ => none

/-- **C07 (iii).**  If `doctrans` ends with an exception — in reading, in the AST stage, in `find_cst_at_ast` /
    the docstring / return-type / argument surgery, in parsing a header — the file was never opened for writing and
    nothing was written. -/
theorem failure_atomic (w : World) (file : Except Err Str) (x : Err) (h : (doctrans w file).2 = .error x) :
    Effect.openWrite ∉ (doctrans w file).1 ∧ ∀ e ∈ (doctrans w file).1, isWrite e = false := by
  unfold doctrans at h ⊢
  cases file with
  | error y => simp [isWrite]
  | ok src =>
    simp only at h ⊢
    cases hs : w.astStage src with
    | error y => simp [isWrite]
    | ok r =>
      obtain ⟨changed, edits⟩ := r
      cases changed with
      | false => simp [isWrite]
      | true =>
        simp only [hs] at h ⊢
        cases hl : (doctransifyLoop w.parseHeader (cstParse src) edits).2 with
        | error y =>
          simp only
          constructor
          · simp
          · intro e he
            simp only [List.mem_append, List.mem_cons, List.mem_map, List.not_mem_nil, or_false] at he
            rcases he with (rfl | rfl | rfl) | ⟨l, _, rfl⟩ <;> rfl
        | ok ns => simp [hl] at h

/-- **C07 (iii), on the file.**  After a failed run the file content is byte-identical. -/
theorem failure_leaves_file (w : World) (src : Str) (x : Err) (h : (doctrans w (.ok src)).2 = .error x) :
    fileAfter src (doctrans w (.ok src)).1 = src := by
  have key : ∀ (tr : List Effect) (c : Str), Effect.openWrite ∉ tr → (∀ e ∈ tr, isWrite e = false) → fileAfter c tr = c := by
    intro tr
    induction tr with
    | nil => intro c _ _; rfl
    | cons e rest ih =>
      intro c h1 h2
      have hr1 : Effect.openWrite ∉ rest := fun hm => h1 (List.mem_cons_of_mem _ hm)
      have hr2 : ∀ e ∈ rest, isWrite e = false := fun e he => h2 e (List.mem_cons_of_mem _ he)
      cases e with
      | openWrite => exact absurd (List.mem_cons_self ..) h1
      | write s => have := h2 (.write s) (List.mem_cons_self ..); simp [isWrite] at this
      | _ => simp only [fileAfter]; exact ih c hr1 hr2
  obtain ⟨h1, h2⟩ := failure_atomic w (.ok src) x h
  exact key _ src h1 h2

/-- **C07 (iii), the write is the last effect.**  Either nothing is written, or the trace ends with
    `open(…, "wt")`, one `write`, `close`, nothing before that touches the file for writing, and the run succeeded. -/
theorem write_is_last (w : World) (file : Except Err Str) :
    (Effect.openWrite ∉ (doctrans w file).1 ∧ ∀ e ∈ (doctrans w file).1, isWrite e = false) ∨
    (∃ pfx s, (doctrans w file).1 = pfx ++ [.openWrite, .write s, .closeWrite] ∧ Effect.openWrite ∉ pfx ∧
      (∀ e ∈ pfx, isWrite e = false) ∧ (doctrans w file).2 = .ok ()) := by
  cases hr : (doctrans w file).2 with
  | error x => left; exact failure_atomic w file x hr
  | ok u =>
    unfold doctrans at hr ⊢
    cases file with
    | error y => simp at hr
    | ok src =>
      simp only at hr ⊢
      cases hs : w.astStage src with
      | error y => simp [hs] at hr
      | ok r =>
        obtain ⟨changed, edits⟩ := r
        cases changed with
        | false => left; simp [isWrite]
        | true =>
          simp only [hs] at hr ⊢
          cases hl : (doctransifyLoop w.parseHeader (cstParse src) edits).2 with
          | error y => simp [hl] at hr
          | ok ns =>
            right
            simp only
            refine ⟨_, joinValues ns, rfl, ?_, ?_, ?_⟩
            · simp
            · intro e he
              simp only [List.mem_append, List.mem_cons, List.mem_map, List.not_mem_nil, or_false] at he
              rcases he with (rfl | rfl | rfl) | ⟨l, _, rfl⟩ <;> rfl
            · trivial

/-- **C07 (iii), nothing changed ⇒ nothing written** (`if not cmp_ast(node, original_module)`). -/
theorem no_change_no_write (w : World) (src : Str) (edits : List FnEdit) (h : w.astStage src = .ok (false, edits)) :
    (doctrans w (.ok src)).1 = [.openRead, .read, .closeRead] ∧ (doctrans w (.ok src)).2 = .ok () := by
  simp [doctrans, h]

/-- a world in which the CST stage raises (a stub `def f(): ...`, whose "docstring" is `Ellipsis`) -/
def stubWorld : World :=
  { astStage := fun _ => .ok (true, [{ kind := .fn, name := ['f'], lineno := 1, body0 := .truthy false }]),
    parseHeader := fun _ => .ok {} }
def stubSrc : Str := ['d','e','f',' ','f','(',')',':',' ','.','.','.','\n']

/-- **Falsifiability of (iii).**  The same pipeline with `open(filename, "wt")` moved before the CST stage loses the
    file: it raises and leaves the file empty.  (So `failure_atomic` / `failure_leaves_file` fail for any such variant.) -/
theorem early_open_not_atomic :
    errOf (doctransEarlyOpen stubWorld (.ok stubSrc)).2 = some "AttributeError" ∧
    Effect.openWrite ∈ (doctransEarlyOpen stubWorld (.ok stubSrc)).1 ∧
    fileAfter stubSrc (doctransEarlyOpen stubWorld (.ok stubSrc)).1 ≠ stubSrc := by
  decide

/-- non-vacuity of (iii): on the same input the real order raises too — with the file untouched — and a successful run writes -/
example : errOf (doctrans stubWorld (.ok stubSrc)).2 = some "AttributeError" ∧
    fileAfter stubSrc (doctrans stubWorld (.ok stubSrc)).1 = stubSrc := by decide
example :
    let w : World := { astStage := fun _ => .ok (true, [{ kind := .fn, name := ['f'], lineno := 1, body0 := .str ['d'] }]),
                       parseHeader := fun _ => .ok {} }
    errOf (doctrans w (.ok stubSrc)).2 = none ∧ fileAfter stubSrc (doctrans w (.ok stubSrc)).1 ≠ stubSrc := by decide

/-! ## (iv) header re-synthesis -/

/-- **C07 (iv), generic part.**  The rebuilt header is `a ++ synthesised parameters ++ b` where `a` is a prefix and
    `b` a suffix of the old header: nothing outside the located parenthesis span is altered. -/
theorem header_outside_parens_preserved (v : Str) (args : List HArg) :
    ∃ a b, replaceArgsValue v args = a ++ synthArgs args ++ b ∧ a <+: v ∧ b <:+ v := by
  refine ⟨(locateParens v).1, (locateParens v).2, rfl, ?_, ?_⟩
  · unfold locateParens slice
    simp only [Nat.sub_zero, List.drop_zero]
    exact List.take_prefix _ _
  · unfold locateParens slice
    simp only
    rw [List.take_of_length_le (by simp)]
    exact List.drop_suffix _ _

/-- `v` is a header `p ( params ) tail` on which the text surgery can work: the first `(` at or after
    `function_name_starts_at` is the one after `p`; `tail` is `ws :` or `ws -> ann :` with no `)` in `ws`;
    `->` occurs nowhere else after it (`arrow`), resp. nowhere at all (`plain`).
    `ann` and `params` may contain parentheses, colons, commas, comments, anything. -/
inductive Canonical (v p params : Str) : Str → Prop
  | plain (ws : Str) (hv : v = p ++ '(' :: params ++ ')' :: ws ++ [':'])
      (hs : (fnNameStartsAt v).toNat ≤ p.length) (hno : '(' ∉ p.drop (fnNameStartsAt v).toNat)
      (hws : ')' ∉ ws) (harrow : contains (p ++ '(' :: params ++ ')' :: ws) sArrow = false) :
      Canonical v p params (ws ++ [':'])
  | arrow (ws ann : Str) (hv : v = p ++ '(' :: params ++ ')' :: ws ++ sArrow ++ ann ++ [':'])
      (hs : (fnNameStartsAt v).toNat ≤ p.length) (hno : '(' ∉ p.drop (fnNameStartsAt v).toNat)
      (hws : ')' ∉ ws) (hann : contains ann sArrow = false) :
      Canonical v p params (ws ++ sArrow ++ ann ++ [':'])

/-- **C07 (iv), location.**  On a canonical header the two slices kept by `maybe_replace_function_args` are exactly
    the text up to and including the opening parenthesis, and the text from the closing parenthesis on —
    in particular a pre-existing return annotation, *even one that contains parentheses*, stays. -/
theorem header_locate_canonical (v p params tail : Str) (h : Canonical v p params tail) :
    locateParens v = (p ++ ['('], ')' :: tail) := by
  cases h with
  | plain ws hv hs hno hws harrow => exact locateParens_plain v p params ws hv hs hno hws harrow
  | arrow ws ann hv hs hno hws hann =>
    have := locateParens_arrow v p params ws ann hv hs hno hws hann
    simpa using this

/-- the full statement of clause (iv): the rebuilt header has the *complete* parameter list of the new signature
    (`ast.unparse(new.args)`: defaults, `/`, `*args`, keyword-only, `**kwargs`) between the old parentheses, the rest intact -/
def header_full : Prop :=
  ∀ (v p params tail : Str) (new : HArgs), Canonical v p params tail →
    replaceArgsValue v new.args = p ++ '(' :: unparseArgs new ++ ')' :: tail

/-- **C07 (iv), partial.**  The full statement holds when the new signature consists of plain parameters only
    (no default, no `/`, no `*args`, no keyword-only parameter, no `**kwargs`).  Missing: every other signature. -/
theorem header_resynth_partial (v p params tail : Str) (new : HArgs) (h : Canonical v p params tail) (hp : PlainArgs new) :
    replaceArgsValue v new.args = p ++ '(' :: unparseArgs new ++ ')' :: tail := by
  unfold replaceArgsValue
  rw [header_locate_canonical v p params tail h, synthArgs_eq_unparseArgs new hp]
  simp

/-- **C07 (iv), return annotation with parentheses.**  `p ( params ) ws -> ann :` keeps `ws -> ann :` verbatim,
    whatever parentheses `ann` contains (the closing `)` is searched only before the `->`). -/
theorem header_return_paren_preserved (p params ws ann : Str) (args : List HArg)
    (hs : (fnNameStartsAt (p ++ '(' :: params ++ ')' :: ws ++ sArrow ++ ann ++ [':'])).toNat ≤ p.length)
    (hno : '(' ∉ p.drop (fnNameStartsAt (p ++ '(' :: params ++ ')' :: ws ++ sArrow ++ ann ++ [':'])).toNat)
    (hws : ')' ∉ ws) (hann : contains ann sArrow = false) :
    replaceArgsValue (p ++ '(' :: params ++ ')' :: ws ++ sArrow ++ ann ++ [':']) args
      = p ++ '(' :: synthArgs args ++ ')' :: ws ++ sArrow ++ ann ++ [':'] := by
  unfold replaceArgsValue
  rw [locateParens_arrow _ p params ws ann rfl hs hno hws hann]
  simp

/-! ### witnesses (each is replayed on the real code by `harness/props/c07.py`) -/

/-- `"\ndef f("` -/
def wP : Str := ['\n','d','e','f',' ','f']
def aInt : HArg := { name := ['a'], ann := some ['i','n','t'] }
def bInt : HArg := { name := ['b'], ann := some ['i','n','t'] }

/-- non-vacuity of `header_return_paren_preserved`: `def f(a) -> T[()]:` ↦ `def f(a: int) -> T[()]:` -/
example : replaceArgsValue (wP ++ ['(','a',')',' ','-','>',' ','T','[','(',')',']',':']) [aInt]
    = wP ++ ['(','a',':',' ','i','n','t',')',' ','-','>',' ','T','[','(',')',']',':'] := by decide
example : Canonical (wP ++ ['(','a',')',' ','-','>',' ','T','[','(',')',']',':']) wP ['a']
    ([' '] ++ sArrow ++ [' ','T','[','(',')',']'] ++ [':']) :=
  Canonical.arrow [' '] [' ','T','[','(',')',']'] (by decide) (by decide) (by decide) (by decide) (by decide)

/-- `def f(a=1):` is canonical -/
theorem canon_default : Canonical (wP ++ ['(','a','=','1',')',':']) wP ['a','=','1'] ([] ++ [':']) :=
  Canonical.plain [] (by decide) (by decide) (by decide) (by decide) (by decide)

/-- non-vacuity of `header_resynth_partial`: `def f(a):` with the new signature `(a: int)` is inside the region,
    and the rebuilt header is `def f(a: int):` -/
example : Canonical (wP ++ ['(','a',')',':']) wP ['a'] ([] ++ [':']) ∧ PlainArgs { args := [aInt] } ∧
    replaceArgsValue (wP ++ ['(','a',')',':']) [aInt] = wP ++ ['(','a',':',' ','i','n','t',')',':'] :=
  ⟨Canonical.plain [] (by decide) (by decide) (by decide) (by decide) (by decide), ⟨rfl, rfl, rfl, rfl, rfl⟩, by decide⟩

/-- **C07 (iv), negation: defaults.**  `def f(a=1):` with the new annotation `a: int` becomes `def f(a: int):`. -/
theorem header_not_full_default : ¬ header_full := by
  intro h
  have := h _ wP ['a','=','1'] _ { args := [aInt], defaults := [['1']] } canon_default
  revert this; decide

/-- what the code writes for that witness -/
example : replaceArgsValue (wP ++ ['(','a','=','1',')',':']) [aInt] = wP ++ ['(','a',':',' ','i','n','t',')',':'] := by decide

/-- **C07 (iv), negation: `*args`.**  `def f(a, *b):` ↦ `def f(a: int):`. -/
theorem header_not_full_vararg : ¬ header_full := by
  intro h
  have := h (wP ++ ['(','a',',',' ','*','b',')',':']) wP ['a',',',' ','*','b'] ([] ++ [':'])
    { args := [aInt], vararg := some { name := ['b'] } }
    (Canonical.plain [] (by decide) (by decide) (by decide) (by decide) (by decide))
  revert this; decide

/-- **C07 (iv), negation: keyword-only marker.**  `def f(a, *, b):` ↦ `def f(a: int):`. -/
theorem header_not_full_kwonly : ¬ header_full := by
  intro h
  have := h (wP ++ ['(','a',',',' ','*',',',' ','b',')',':']) wP ['a',',',' ','*',',',' ','b'] ([] ++ [':'])
    { args := [aInt], kwonly := [{ name := ['b'] }], kwDefaults := [none] }
    (Canonical.plain [] (by decide) (by decide) (by decide) (by decide) (by decide))
  revert this; decide

/-- **C07 (iv), negation: `**kwargs`.**  `def f(a, **b):` ↦ `def f(a: int):`. -/
theorem header_not_full_kwarg : ¬ header_full := by
  intro h
  have := h (wP ++ ['(','a',',',' ','*','*','b',')',':']) wP ['a',',',' ','*','*','b'] ([] ++ [':'])
    { args := [aInt], kwarg := some { name := ['b'] } }
    (Canonical.plain [] (by decide) (by decide) (by decide) (by decide) (by decide))
  revert this; decide

/-- **C07 (iv), negation: positional-only.**  `def f(a, /, b):` ↦ `def f(b: int):`. -/
theorem header_not_full_posonly : ¬ header_full := by
  intro h
  have := h (wP ++ ['(','a',',',' ','/',',',' ','b',')',':']) wP ['a',',',' ','/',',',' ','b'] ([] ++ [':'])
    { posonly := [{ name := ['a'] }], args := [bInt] }
    (Canonical.plain [] (by decide) (by decide) (by decide) (by decide) (by decide))
  revert this; decide

/-- **C07 (iv), negation: return annotation.**  Outside the canonical region (a second `->` inside the annotation,
    after a `)`) the pre-existing return annotation is *not* preserved:
    `def f(a) -> "g(x) -> y":` ↦ `def f(a: int) -> y":`. -/
theorem header_return_not_preserved_stray_arrow :
    replaceArgsValue (wP ++ ['(','a',')',' ','-','>',' ','"','g','(','x',')',' ','-','>',' ','y','"',':']) [aInt]
      = wP ++ ['(','a',':',' ','i','n','t',')',' ','-','>',' ','y','"',':'] := by decide

/-- **C07 (iv), negation: the opening parenthesis.**  Outside the canonical region (`def` preceded by neither a blank
    nor `)`, and a parenthesis earlier in the node — here a decorator with a trailing blank, in the file also any
    tab-indented decorated method) `value.find("(", function_name_starts_at)` finds the decorator's parenthesis:
    `@dec(1) ⏎def g(a):` ↦ `@dec(a: int):` — the `def` line is gone. -/
theorem header_wrong_paren_decorator :
    replaceArgsValue ['\n','@','d','e','c','(','1',')',' ','\n','d','e','f',' ','g','(','a',')',':'] [aInt]
      = ['\n','@','d','e','c','(','a',':',' ','i','n','t',')',':'] := by decide

end C07
