import CddVerif.Properties.C14GN
import CddVerif.Properties.C14Iface
import CddVerif.Properties.C14SqlJson
/-! C14 — aggregator of the property's theorem files (what the check builds and audits):
`C14` (ReST docstring parser), `C14GN` (Google / NumPy docstring parsers), `C14Iface` (class / function / argparse
parsers of `Model/IfaceParse.lean`), `C14SqlJson` (SQLAlchemy and JSON-schema parsers of `Model/Sql.lean`,
`Model/JsonSchema.lean`). -/
