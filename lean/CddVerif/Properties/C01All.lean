import CddVerif.Properties.C01Whole
import CddVerif.Properties.C01Google
/-! Aggregator: the property theorems of C01 live in `Properties/C01.lean` (value level), `Properties/C01Whole.lean`
    (whole docstring, ReST) and `Properties/C01Google.lean` (whole docstring, Google); this module only imports them so that
    one audit (`#print axioms`) covers all of them. -/
