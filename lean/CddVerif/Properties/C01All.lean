import CddVerif.Properties.C01Whole
import CddVerif.Properties.C01Google
import CddVerif.Properties.C01Numpy
import CddVerif.Properties.C01GoogleReturn
/-! Aggregator: the property theorems of C01 live in `Properties/C01.lean` (value level), `Properties/C01Whole.lean`
    (whole docstring, ReST) `Properties/C01Google.lean` + `C01GoogleReturn.lean` (whole docstring, Google) and `Properties/C01Numpy.lean` (whole docstring, NumPy); this module only imports them so that
    one audit (`#print axioms`) covers all of them. -/
