import CddVerif.Proofs.OpenApi
/-!
# C16 — the generated OpenAPI document is closed and matches the requested CRUD

Property theorems only (helper lemmas: `CddVerif/Proofs/OpenApi.lean`, model: `CddVerif/Model/OpenApi.lean`).

* `openapi es` is the model of `cdd.compound.openapi.emit.openapi` on a list of (name, model, route, id, crud);
* `bulk app ts routes` is the model of `cdd.compound.openapi.gen_openapi.openapi_bulk` on the tables of the model files
  and the route functions visible in the routes files; `genRoutes` is what `gen_routes` writes for one model.

All theorems quantify over lists of ANY length; names, routes, ids are arbitrary strings subject to the stated
hypotheses (`'/' ∉ name` is what makes `#/components/schemas/<name>` a JSON pointer to the key `<name>`).

| clause of the statement                         | `emit.openapi`                 | `openapi_bulk` on `gen_routes` output                       |
|-------------------------------------------------|--------------------------------|-------------------------------------------------------------|
| every `$ref` resolves                           | `refs_closed` (full)           | `bulk_closed`, `bulk_src_closed` (partial: key hypothesis), `models_with_base_are_discovered`; `bulk_full_false`, `bulk_key_not_closed`, `bulk_key_collision`, `bulk_key_collision_lost` (negations) |
| every request body referenced is defined        | `request_bodies_defined` (full)| part of `bulk_closed`; `body_key_is_name`                   |
| operations = requested                          | `ops_exact` (full)             | `bulk_ops_exact`, `bulk_ops_exact_any_layout` (any spread over files / upsert batches); `pinned_appended_batch_lost` (the repaired defect) |
| template parameters declared                    | `params_declared` (full)       | `bulk_params_declared`                                      |
| routes fed back describe the same model         | `schemas_describe_models`      | `bulk_roundtrip`                                            |
| routes can be generated at all                  |                                | `gen_routes_pk_total` (full); `pinned_undocumented_column_raises` (the repaired defect) |

"serialisable JSON" holds by construction in the model (`J` has string keys and JSON leaves only); on the real
dicts it is checked by the harness oracle (`json.loads(json.dumps(doc)) == doc`).
-/
namespace C16
open Py OpenApi

/-! ## `emit.openapi` -/

/-- **C16 (a) every `$ref` resolves, for any number of models.**  The document produced from any list of
    (name, model, route, id, crud) whose names contain no `/` and whose model schemas contain no `$ref`
    is closed: every `$ref` anywhere in it resolves (JSON-pointer walk) to a value defined in the same document.
    Holds for every `crud` string and however names / routes repeat or clash between the entries. -/
theorem refs_closed (es : List Entry) (h : ∀ e ∈ es, '/' ∉ e.name ∧ refsKvs e.model = []) : Closed (openapi es) :=
  (openapiDoc_inv es h).closed

/-- non-vacuity + a multi-model document with two `Create` models and a name containing "Body" -/
example : Closed (openapi [
    ⟨c!"FooBar", [(c!"$id", .str c!"x"), (c!"type", .str c!"object")], c!"/api/foo_bar", c!"id", c!"CRD"⟩,
    ⟨c!"BodyPart", [(c!"type", .str c!"object")], c!"/api/body_part", c!"name", c!"C"⟩,
    ⟨c!"Baz", [], c!"/api/baz", c!"k", c!"D"⟩]) :=
  refs_closed _ (by decide)

/-- the schema hypothesis is needed: a model schema carrying a dangling `$ref` is copied verbatim -/
example : ¬ Closed (openapi [⟨c!"Foo", [(c!"properties", .obj [(c!"a", refObj c!"#/nowhere")])], c!"/foo", c!"id", c!"R"⟩]) := by
  decide

/-- **C16 (b) every request body referenced is defined** (no hypothesis at all): whatever `requestBody.$ref` an
    operation of the document carries has the form `#/components/requestBodies/<n>` and `<n>` is a key of
    `components.requestBodies`. -/
theorem request_bodies_defined (es : List Entry) :
    ∀ r ∈ requestBodyRefs (openapi es), ∃ n, r = bodyPrefix ++ n ∧
      (getPath (openapi es) [c!"components", c!"requestBodies", n]).isSome = true := by
  intro r hr
  unfold openapi at hr ⊢
  rw [requestBodyRefs_toJ, List.mem_flatMap] at hr
  obtain ⟨kv, hkv, hr⟩ := hr
  obtain ⟨n, rfl, hk⟩ := openapiDoc_rinv es kv hkv r hr
  exact ⟨n, rfl, by rw [getPath_toJ_bodies, lookup_isSome]; exact hk⟩

/-- non-vacuity: three models, two with Create → two request bodies are referenced, both defined -/
example : requestBodyRefs (openapi [⟨c!"A", [], c!"/a", c!"id", c!"CR"⟩, ⟨c!"B", [], c!"/b", c!"id", c!"D"⟩, ⟨c!"ABody", [], c!"/c", c!"id", c!"C"⟩])
    = [bodyRef c!"A", bodyRef c!"ABody"] := by decide

/-- **C16 (c) the operations present are exactly those requested**, in order: for entries whose `paths` keys
    (`route`, `route/{id}`) are pairwise distinct and whose `crud` ⊆ "CRUD", the (path, method) pairs of the document are
    POST on the collection iff `C`, GET on the item iff `R`, DELETE on the item iff `D` — nothing else. -/
theorem ops_exact (es : List Entry) (hnd : (es.flatMap pathKeys).Nodup) (hok : ∀ e ∈ es, crudOK e.crud = true) :
    allOps (openapi es) = es.flatMap requested := by
  unfold allOps openapi
  rw [pathsOf_toJ]
  have := opsOfPaths_foldl es init (by simpa [init, keys] using hnd) hok
  simpa [openapiDoc, init, opsOfPaths] using this

/-- non-vacuity, all three letters in several orders -/
example : allOps (openapi [⟨c!"A", [], c!"/a", c!"id", c!"DC"⟩, ⟨c!"B", [], c!"/b", c!"k", c!"R"⟩, ⟨c!"C", [], c!"/c", c!"id", c!"CRD"⟩]) =
    [(c!"/a", c!"post"), (c!"/a/{id}", c!"delete"), (c!"/b/{k}", c!"get"), (c!"/c", c!"post"), (c!"/c/{id}", c!"get"), (c!"/c/{id}", c!"delete")] :=
  ops_exact _ (by decide) (by decide)

/-- the distinctness hypothesis is needed: two entries writing the same item path clobber each other
    (`paths[_route] = {…}` is an assignment, not a merge) -/
example : allOps (openapi [⟨c!"A", [], c!"/a", c!"id", c!"R"⟩, ⟨c!"A", [], c!"/a", c!"id", c!"D"⟩]) = [(c!"/a/{id}", c!"delete")] := by
  decide

/-- **C16 (d) every path template parameter is declared**: for routes without `{` and ids without `}`, every `{x}` in
    a key of `paths` is the name of an `in: path` entry of that item's `parameters`. -/
theorem params_declared (es : List Entry) (h : ∀ e ∈ es, '{' ∉ e.route ∧ '}' ∉ e.id) : ParamsDeclared (openapi es) := by
  unfold ParamsDeclared openapi
  rw [pathsOf_toJ]
  exact openapiDoc_pinv es h

example : ParamsDeclared (openapi [⟨c!"A", [], c!"/v1/a", c!"dataset_name", c!"CRD"⟩, ⟨c!"B", [], c!"/b", c!"k", c!"C"⟩]) :=
  params_declared _ (by decide)
example : tparams c!"/v1/a/{dataset_name}" none = [c!"dataset_name"] := by decide
/-- outside the hypothesis (a templated route prefix) the parameter of the prefix is *not* declared -/
example : ¬ ParamsDeclared (openapi [⟨c!"A", [], c!"/{tenant}/a", c!"id", c!"C"⟩]) := by decide

/-- **C16 (e) the document describes the models it was given**: with pairwise distinct names, `components.schemas[name]`
    is the model's schema without its `$`-keys. -/
theorem schemas_describe_models (es : List Entry) (hnd : (es.map (·.name)).Nodup) (e : Entry) (he : e ∈ es) :
    getPath (openapi es) [c!"components", c!"schemas", e.name] = some (.obj (stripDollar e.model)) := by
  unfold openapi
  rw [getPath_toJ_schemas]
  exact schemas_foldl_mem es init hnd e he

/-! ## `openapi_bulk` on generated routes -/

/-- **`body_name.rpartition("Body")[0]` is the entity name for every name**, including names that contain or end
    in "Body" / "Bod" / "B" (the last occurrence of "Body" in `name ++ "Body"` is always the suffix). -/
theorem body_key_is_name (n : Str) : (rpartition (bodyName n) c!"Body").1 = n := rpartition_bodyName n

example : (rpartition (bodyName c!"BodyBodyX") c!"Body").1 = c!"BodyBodyX" := by decide
example : (Py.partition (bodyName c!"BodyBodyX") c!"Body").1 = [] := by decide  -- what `partition` would give

/-- **C16 (a) for `openapi_bulk`, under its hypothesis.**  Let `routes` be route functions written by `gen_routes` for
    entries `es` (any number, any app, any file layout, any order, any subset).  If every entry's class name is the key
    derived from some table (`title(tablename.replace("_tbl","",1)) = name`), names contain no `/` and table schemas no
    `$ref`, then whenever `openapi_bulk` returns a document, that document is closed. -/
theorem bulk_closed (app : Str) (ts : List Table) (es : List Entry) (routes : List RouteFn)
    (hroutes : ∀ r ∈ routes, ∃ e ∈ es, ∃ a, r ∈ genRoutes a e)
    (hname : ∀ e ∈ es, '/' ∉ e.name)
    (hkey : ∀ e ∈ es, ∃ t ∈ ts, bulkKey t.name = e.name)
    (hschema : ∀ t ∈ ts, refsKvs t.schema = [])
    (doc : J) (h : bulk app ts routes = .ok doc) : Closed doc := by
  unfold bulk at h
  cases hd : bulkDoc app ts routes with
  | error e => rw [hd] at h; cases h
  | ok d =>
    rw [hd] at h
    simp only [Except.map, Except.ok.injEq] at h
    subst h
    exact (bulkDoc_closed app ts es routes hroutes hname hkey hschema d hd).closed

/-- the mock of the test-suite satisfies the hypothesis: `"config_tbl"` ↦ `"Config"` -/
example : bulkKey c!"config_tbl" = c!"Config" := by decide
/-- non-vacuity: a two-model document (both with Create) in the hypothesis' domain is produced and closed -/
example : okAnd (bulk c!"rest_api" [⟨c!"config_tbl", [(c!"type", .str c!"object")]⟩, ⟨c!"item", []⟩]
    (genRoutes c!"rest_api" ⟨c!"Config", [], c!"/api/config", c!"dataset_name", c!"CRD"⟩ ++
     genRoutes c!"rest_api" ⟨c!"Item", [], c!"/api/item", c!"id", c!"CD"⟩))
    (fun doc => closedB doc && (requestBodyRefs doc).length == 2) = true := by decide

/-- **Negation on a witness (known finding C16-bulk-key-title).**  Class `FooBar`, `__tablename__ = "foo_bar"`:
    the schema is stored under `Foo_Bar`, the routes reference `FooBar`; three `$ref`s of the document dangle. -/
theorem bulk_key_not_closed :
    bulkKey c!"foo_bar" = c!"Foo_Bar" ∧
    okAnd (bulk c!"rest_api" [⟨c!"foo_bar", [(c!"type", .str c!"object")]⟩]
      (genRoutes c!"rest_api" ⟨c!"FooBar", [], c!"/api/foo_bar", c!"id", c!"CRD"⟩))
      (fun doc => !closedB doc && dangling doc == [schemaRef c!"FooBar", schemaRef c!"FooBar", schemaRef c!"FooBar"]) = true := by
  decide

/-- The full statement for `openapi_bulk`, i.e. `bulk_closed` WITHOUT the key hypothesis (only: every class has a
    table in the model files).  It is FALSE for the unchanged code (`bulk_full_false`); `bulk_closed` is the partial
    result, the missing part being exactly `title(tablename.replace("_tbl","",1)) = class name`. -/
def C16_bulk_full : Prop :=
  ∀ (app : Str) (ts : List Table) (es : List Entry) (routes : List RouteFn),
    (∀ r ∈ routes, ∃ e ∈ es, ∃ a, r ∈ genRoutes a e) → (∀ e ∈ es, '/' ∉ e.name) → es.length ≤ ts.length →
    (∀ t ∈ ts, refsKvs t.schema = []) → ∀ doc, bulk app ts routes = .ok doc → Closed doc

theorem bulk_full_false : ¬ C16_bulk_full := by
  intro H
  have hw : okAnd (bulk c!"rest_api" [⟨c!"foo_bar", [(c!"type", .str c!"object")]⟩]
      (genRoutes c!"rest_api" ⟨c!"FooBar", [], c!"/api/foo_bar", c!"id", c!"CRD"⟩)) (fun doc => !closedB doc) = true := by decide
  cases hb : bulk c!"rest_api" [⟨c!"foo_bar", [(c!"type", .str c!"object")]⟩]
      (genRoutes c!"rest_api" ⟨c!"FooBar", [], c!"/api/foo_bar", c!"id", c!"CRD"⟩) with
  | error e => rw [hb] at hw; simp [okAnd] at hw
  | ok doc =>
    rw [hb] at hw
    simp only [okAnd] at hw
    have hc := H _ _ [⟨c!"FooBar", [], c!"/api/foo_bar", c!"id", c!"CRD"⟩] _
      (fun r hr => ⟨_, List.mem_cons_self, c!"rest_api", hr⟩) (by decide) (by decide) (by decide) doc hb
    have : closedB doc = true := by
      unfold closedB; rw [List.all_eq_true]; exact hc
    simp [this] at hw

/-- **Negation on a witness (known finding C16-bulk-key-collision; same root cause, other symptom).**  Classes `Foo`
    (`__tablename__ = "foos"`) and `foo` (`__tablename__ = "foo"`): the key derived from the *other* table is `Foo`, so
    every `#/components/schemas/Foo` written for class `Foo` resolves — to the schema of class `foo`. -/
theorem bulk_key_collision :
    okAnd (bulk c!"rest_api" [⟨c!"foos", [(c!"description", .str c!"Plural table.")]⟩, ⟨c!"foo", [(c!"description", .str c!"Lower-case class.")]⟩]
      (genRoutes c!"rest_api" ⟨c!"Foo", [], c!"/api/foos", c!"id", c!"CR"⟩ ++ genRoutes c!"rest_api" ⟨c!"foo", [], c!"/foo", c!"slug", c!"CD"⟩))
      (fun doc => (doc.refs.contains (schemaRef c!"Foo")) &&
        (match getPath doc [c!"components", c!"schemas", c!"Foo"] with
         | some v => v.beq (.obj [(c!"description", .str c!"Lower-case class.")])
         | none => false)) = true := by decide

/-- **Negation on a witness (known finding C16-bulk-key-collision-lost; same root cause, third symptom).**  Tables
    `config` and `config_tbl` derive the same key `Config`: `components.schemas` holds one entry for the two models and
    it is the later one's — the first model is described by no schema of the document. -/
theorem bulk_key_collision_lost :
    bulkKey c!"config" = bulkKey c!"config_tbl" ∧
    okAnd (bulk c!"rest_api" [⟨c!"config", [(c!"description", .str c!"first")]⟩, ⟨c!"config_tbl", [(c!"description", .str c!"second")]⟩] [])
      (fun doc => match getPath doc [c!"components", c!"schemas"] with
        | some (.obj kvs) => keys kvs == [c!"Config", c!"ServerError"] &&
            (match lookup kvs c!"Config" with
             | some v => v.beq (.obj [(c!"description", .str c!"second")])
             | none => false)
        | _ => false) = true := by decide

/-! ### which classes of the models file `openapi_bulk` treats as models (`parser_utils.infer`) -/

/-- **Every class with `Base` among its plain-name bases — in ANY position, next to any mixins, plain or dotted — is
    read as a model** (so `class Invoice(AuditMixin, Base)` gets its schema just like `class Customer(Base)`). -/
theorem models_with_base_are_discovered (nodes : List SrcNode) (ts : List Table) (h : discover nodes = .ok ts)
    (bases : List Str) (t : Table) (hn : SrcNode.classDef bases (some t) ∈ nodes) (hb : c!"Base" ∈ bases) : t ∈ ts :=
  discover_keeps_base_class nodes ts h bases t hn hb

/-- the corner of the round-4 seeded change: mixin first, `Base` second; a dotted mixin has no `id` and is skipped by the
    test; `object` / no base is not a model; a `Table("t", metadata, …)` call is; other calls are not -/
example : okAnd (discover [
      .classDef [c!"object"] none, .classDef [] none,
      .classDef [c!"Base"] (some ⟨c!"customer", []⟩), .call 1 none none,
      .classDef [c!"AuditMixin", c!"Base"] (some ⟨c!"invoice", []⟩),
      .classDef [c!"TimestampMixin", c!"Base"] (some ⟨c!"payment", []⟩),      -- `(mixins.Audit, TimestampMixin, Base)`: the dotted base has no id
      .call 4 (some c!"metadata") (some ⟨c!"audit_tbl", []⟩), .call 2 (some c!"Integer") none, .call 3 (some c!"Integer") none])
    (fun ts => ts.map (·.name) == [c!"customer", c!"invoice", c!"payment", c!"audit_tbl"]) = true := by decide

/-- **C16 (a) for `openapi_bulk` from the models FILE, under the key hypothesis:** as `bulk_closed`, with the tables
    discovered by `infer`: it suffices that every entry's class is a node of the file with `Base` among its plain-name
    bases and that its table's key is the class name. -/
theorem bulk_src_closed (app : Str) (nodes : List SrcNode) (es : List Entry) (routes : List RouteFn)
    (hroutes : ∀ r ∈ routes, ∃ e ∈ es, ∃ a, r ∈ genRoutes a e)
    (hname : ∀ e ∈ es, '/' ∉ e.name)
    (hcls : ∀ e ∈ es, ∃ bases t, SrcNode.classDef bases (some t) ∈ nodes ∧ c!"Base" ∈ bases ∧ bulkKey t.name = e.name)
    (hschema : ∀ n ∈ nodes, ∀ t, n.table? = some t → refsKvs t.schema = [])
    (doc : J) (h : bulkSrc app nodes routes = .ok doc) : Closed doc := by
  unfold bulkSrc at h
  split at h
  · rename_i ts hts
    refine bulk_closed app ts es routes hroutes hname ?_ ?_ doc h
    · intro e he
      obtain ⟨bases, t, hn, hb, hk⟩ := hcls e he
      exact ⟨t, discover_keeps_base_class nodes ts hts bases t hn hb, hk⟩
    · intro t ht
      obtain ⟨n, hn, hnt⟩ := discover_sub nodes ts hts t ht
      exact hschema n hn t hnt
  · cases h

/-! ### `gen_routes` → `openapi_bulk` for any number of models

`es` is the list of models in the order their routes appear in the routes files; `bulk_ops_exact_any_layout` shows that
every way of spreading them over routes files and `upsert_routes` batches yields that list.

`GoodEntry e` (defined in `Proofs/OpenApi.lean`) is: `'/' ∉ name`, ``'`' ∉ name``, `name ≠ ""`, `':' ∉ route`, `'/' ∉ id`
(class names / column names are identifiers, route prefixes are plain).  `bottleKeys e = [route, route/:id]` are the
decorator paths, `pathKeys e = [route, route/{id}]` the OpenAPI paths: both families pairwise distinct. -/

/-- **C16 (c) for `openapi_bulk`:** the routes `gen_routes` writes for `es`, read back by `openapi_bulk`, yield a
    document (no exception) whose operations are exactly the requested ones, in order. -/
theorem bulk_ops_exact (app : Str) (ts : List Table) (es : List Entry) (hgood : ∀ e ∈ es, GoodEntry e)
    (hb : (es.flatMap bottleKeys).Nodup) (hp : (es.flatMap pathKeys).Nodup) :
    ∃ doc, bulk app ts (es.flatMap (genRoutes app)) = .ok doc ∧ allOps doc = es.flatMap requested := by
  refine ⟨_, by unfold bulk; rw [bulkDoc_generated' app ts es hgood hb hp]; rfl, ?_⟩
  unfold allOps; rw [pathsOf_toJ]; exact opsOfPaths_flatMap es

/-- **C16 (d) for `openapi_bulk`:** every `{pk}` of a path of that document is declared in the item's `parameters`. -/
theorem bulk_params_declared (app : Str) (ts : List Table) (es : List Entry) (hgood : ∀ e ∈ es, GoodEntry e)
    (hb : (es.flatMap bottleKeys).Nodup) (hp : (es.flatMap pathKeys).Nodup) (hbr : ∀ e ∈ es, '{' ∉ e.route ∧ '}' ∉ e.id) :
    ∃ doc, bulk app ts (es.flatMap (genRoutes app)) = .ok doc ∧ ParamsDeclared doc := by
  refine ⟨_, by unfold bulk; rw [bulkDoc_generated' app ts es hgood hb hp]; rfl, ?_⟩
  unfold ParamsDeclared; rw [pathsOf_toJ]; exact pinv_bulkPathItems es hbr

/-- **C16 (f) routes generated for the models, fed back to the generator, describe those same models:** the `paths`
    read back are, item by item and up to key order inside the dicts (`J.eqv`), the path items `emit.openapi` writes for
    the same (name, model, route, id, crud) tuples that carry an operation; and `components.requestBodies` agree likewise.
    (`emit.openapi` additionally writes a parameter-only item at `route/{id}` when neither `R` nor `D` is requested.) -/
theorem bulk_roundtrip (app : Str) (ts : List Table) (es : List Entry) (hgood : ∀ e ∈ es, GoodEntry e)
    (hb : (es.flatMap bottleKeys).Nodup) (hp : (es.flatMap pathKeys).Nodup) (hok : ∀ e ∈ es, crudOK e.crud = true) :
    ∃ doc, bulk app ts (es.flatMap (genRoutes app)) = .ok doc ∧
      dictEqv (pathsOf doc) (withOps (pathsOf (openapi es))) = true ∧
      dictEqv (bodiesOfDoc doc) (bodiesOfDoc (openapi es)) = true := by
  refine ⟨_, by unfold bulk; rw [bulkDoc_generated' app ts es hgood hb hp]; rfl, ?_, ?_⟩
  · unfold openapi
    rw [pathsOf_toJ, pathsOf_toJ]
    have := paths_foldl es init (by simpa [init, keys] using hp) hok
    simp only [init, List.nil_append] at this
    unfold openapiDoc
    simp only [init, this]
    exact dictEqv_flatMap es
  · unfold openapi
    rw [bodiesOfDoc_toJ, bodiesOfDoc_toJ]
    exact bodies_foldl es ([], []) init rfl

/-- non-vacuity: three models, two of them with Create, a name containing "Body", one delete-only model -/
example : ∃ doc, bulk c!"app" [] (([
      ⟨c!"FooBar", [], c!"/api/foo_bar", c!"id", c!"CRD"⟩, ⟨c!"BodyPart", [], c!"/v2/body_part", c!"name", c!"CR"⟩,
      ⟨c!"Baz", [], c!"/baz", c!"k", c!"D"⟩] : List Entry).flatMap (genRoutes c!"app")) = .ok doc ∧
    allOps doc = [(c!"/api/foo_bar", c!"post"), (c!"/api/foo_bar/{id}", c!"get"), (c!"/api/foo_bar/{id}", c!"delete"),
      (c!"/v2/body_part", c!"post"), (c!"/v2/body_part/{name}", c!"get"), (c!"/baz/{k}", c!"delete")] :=
  bulk_ops_exact _ _ _ (by decide) (by decide) (by decide)

/-- **C16 (c) for `openapi_bulk`, any layout:** however the models are spread over routes files and over successive
    `upsert_routes` calls on the same file (`files : List (List Entry)`: a file = the batches upserted into it, in
    order), the document read back has exactly the operations requested for all of them. -/
theorem bulk_ops_exact_any_layout (app : Str) (ts : List Table) (files : List (List Entry))
    (hgood : ∀ e ∈ files.flatten, GoodEntry e)
    (hb : (files.flatten.flatMap bottleKeys).Nodup) (hp : (files.flatten.flatMap pathKeys).Nodup) :
    ∃ doc, bulk app ts (files.flatMap (fun batches => visibleRoutes (batches.map (genRoutes app)))) = .ok doc ∧
      allOps doc = files.flatten.flatMap requested := by
  rw [routes_of_layout]
  exact bulk_ops_exact app ts files.flatten hgood hb hp

/-- non-vacuity, and the former witness of the appended-batch defect: `Foo` ("RD") then `Bar` ("CR") upserted into ONE
    routes file, a third model in a file of its own — all five operations are present -/
example : ∃ doc, bulk c!"rest_api" [] ([[⟨c!"Foo", [], c!"/api/foo", c!"id", c!"RD"⟩, ⟨c!"Bar", [], c!"/api/bar", c!"id", c!"CR"⟩],
      [⟨c!"Baz", [], c!"/baz", c!"k", c!"C"⟩]].flatMap (fun batches => visibleRoutes (batches.map (genRoutes c!"rest_api")))) = .ok doc ∧
    allOps doc = [(c!"/api/foo/{id}", c!"get"), (c!"/api/foo/{id}", c!"delete"), (c!"/api/bar", c!"post"), (c!"/api/bar/{id}", c!"get"),
      (c!"/baz", c!"post")] :=
  bulk_ops_exact_any_layout _ _ _ (by decide) (by decide) (by decide)

/-- the defect repaired by the fix commit "upsert_routes appended … without a separating newline": when only the batch
    that created a routes file was visible (`visibleRoutesPinned`), the operations requested for the second model
    upserted into the file (`Bar`, "CR") were absent from the document -/
theorem pinned_appended_batch_lost :
    okAnd (bulk c!"rest_api" [⟨c!"foo", []⟩, ⟨c!"bar", []⟩]
      (visibleRoutesPinned [genRoutes c!"rest_api" ⟨c!"Foo", [], c!"/api/foo", c!"id", c!"RD"⟩,
                            genRoutes c!"rest_api" ⟨c!"Bar", [], c!"/api/bar", c!"id", c!"CR"⟩]))
      (fun doc => allOps doc == [(c!"/api/foo/{id}", c!"get"), (c!"/api/foo/{id}", c!"delete")]) = true ∧
    requested ⟨c!"Bar", [], c!"/api/bar", c!"id", c!"CR"⟩ = [(c!"/api/bar", c!"post"), (c!"/api/bar/{id}", c!"get")] := by
  decide

/-- **Routes can be generated for every model with at least one column:** `gen_routes`' primary-key choice never
    raises and is fully specified — the first column whose `doc` starts with `[PK]`, otherwise the first column;
    a column without `doc` (no `comment=`) is just not the `[PK]` one. -/
theorem gen_routes_pk_total (p : Str × Option Str) (ps : List (Str × Option Str)) :
    pickPk (p :: ps) = .ok (match (p :: ps).find? isPkDoc with | some q => q.1 | none => p.1) := by
  obtain ⟨k, d⟩ := p
  exact pickPkGo_spec _ _

example : okAnd (pickPk [(c!"id", none)]) (· == c!"id") = true := by decide
example : okAnd (pickPk [(c!"a", some c!"x"), (c!"b", none), (c!"id", some c!"[PK] key")]) (· == c!"id") = true := by decide
example : okAnd (pickPk [(c!"a", none), (c!"b", some c!"y")]) (· == c!"a") = true := by decide

/-- the defect repaired by the fix commit "gen_routes raised KeyError 'doc' …": the search indexed `["doc"]` and raised
    as soon as it examined a column without `doc` -/
theorem pinned_undocumented_column_raises :
    raises (pickPkPinned [(c!"id", none)]) .keyError = true ∧
    raises (pickPkPinned [(c!"a", some c!"x"), (c!"id", none)]) .keyError = true ∧
    okAnd (pickPkPinned [(c!"id", some c!"[PK] the id"), (c!"b", none)]) (· == c!"id") = true := by decide

/-- the two model routes to `bottle(template)` agree (samples; the harness compares both with the real `bottle()` on
    every generated name) — this is a test of the model's internal consistency, not a universally quantified theorem -/
theorem payload_via_parse_samples :
    ([Kind.create, Kind.read, Kind.destroy].all fun k =>
      [c!"Foo", c!"FooBar", c!"BodyPart", c!"A1"].all fun n =>
        match payloadViaParse k n with
        | .ok j => j.beq (templatePayload k n)
        | .error _ => false) = true := by decide +kernel

end C16
