import CddVerif.Proofs.DocGN
import CddVerif.Properties.C14
/-!
# C14 — every parser returns a well-formed interface description: the Google and NumPy docstring parsers

`Model/DocGN.lean` is a character-level port of the Google / NumPy scan and parse phases of
`cdd/shared/docstring_parsers.py` (tied to the real code by the correspondence of `harness/props/c14gn.py`).
Proved here for **every input text, both styles and both values of `emit_default_doc`**: whatever the model parser
returns has pairwise distinct parameter names (the Python `dict` gives that for free; the association-list model has
to earn it from the insertion discipline), none of them with a leading asterisk (`_set_name_and_type` strips them:
all of them for `**x` / `…kwargs`, one for `*x`, and a name starting `**` never reaches the one-star branch), at
most one return entry and only the keys typ / doc / default (by construction of `GIR`).
Refuted on concrete texts (replayed on the real parser by the harness; all already listed as C14 findings):
non-empty names, non-empty types, types that parse as Python expressions (`Optional[]`).
The clause "the type parses as a Python expression" has no model of Python's grammar here; it is evaluated on the
real parser's outputs by the harness.
-/
namespace C14GN
open Py Doc DocGN

/-- structural well-formedness of a parsed interface: names pairwise distinct, none with a leading asterisk -/
def WFnames (ir : GIR) : Prop := WFkeys ir.params

/-- the statement at full strength over the model parser, including the clauses the parser does NOT satisfy:
    non-empty names and non-empty types -/
def C14GN_full : Prop :=
  ∀ text edd ir, parseDocstring text edd = .ok ir →
    WFnames ir ∧ (∀ k ∈ keys ir.params, k ≠ []) ∧ (∀ kp ∈ ir.params, kp.2.typ ≠ some [])

/-- `_parse_phase` keeps the invariant -/
theorem parsePhase_wf (style : GNStyle) (sc : Scanned) (edd : Bool) (ir : GIR) (h : parsePhase style sc edd = .ok ir) : WFnames ir := by
  unfold parsePhase at h
  split at h
  · cases h
  · cases h
  · rename_i ps rd hps
    split at h
    · cases h
    · cases h
    · cases h
      exact foldParams_wf style edd _ false [] ps rd WFkeys_nil hps

/-- **C14, Google and NumPy, every input text:** whatever scan + parse return (rather than raise, or leave the model)
    has pairwise distinct parameter names, none with a leading asterisk.  (partial: the clauses about the mapping) -/
theorem parseGN_wf (style : GNStyle) (text : Str) (edd : Bool) (ir : GIR) (h : parseGN style text edd = .ok ir) : WFnames ir := by
  unfold parseGN at h
  split at h
  · cases h
  · split at h
    · cases h
    · cases h
    · exact parsePhase_wf style _ edd ir h

/-- the same for the public entry point with its own style detection -/
theorem parseDocstring_wf (text : Str) (edd : Bool) (ir : GIR) (h : parseDocstring text edd = .ok ir) : WFnames ir := by
  unfold parseDocstring at h
  split at h
  · cases h; exact WFkeys_nil
  · split at h
    · cases h
    · exact parseGN_wf _ text edd ir h

/-- at most one return entry, and entries with exactly the fields typ / doc / default, hold by construction of `GIR` /
    `GParam` (recorded so that it is not silently assumed; the driver prints exactly these fields and the harness
    compares the key sets of the real entries with them) -/
theorem shape_by_construction (ir : GIR) : ir.returns = none ∨ ∃ p : GParam, ir.returns = some p ∧ p = ⟨p.typ, p.doc, p.default⟩ := by
  cases h : ir.returns with
  | none => exact Or.inl rfl
  | some p => exact Or.inr ⟨p, rfl, rfl⟩

/-- model faithfulness, proved rather than assumed: every unit the scanner hands to the parse phase holds at least one
    line, so `scan[0]` / `elem[0]` there never raise `IndexError` (the model's `headD` never meets an empty unit) -/
theorem units_nonempty (style : GNStyle) (text : Str) (sc : Scanned) (h : scanPhase style text = .ok sc) :
    ∀ unit ∈ sc.args, unit ≠ [] := scanPhase_args_ne style text sc h

/-! ### non-vacuity and the de-duplication at work -/

/-- non-vacuity of `parseGN_wf` (Google): three entries, a `*args` and a `**kwargs` among them -/
example : ∃ ir, parseDocstring g!"Args:\n  a (int): x\n  *args: y\n  **kwargs: z\n\nReturns:\n  int: r\n" true = .ok ir ∧
    keys ir.params = [g!"a", g!"args", g!"kwargs"] ∧ ir.returns.isSome := by
  refine ⟨_, rfl, ?_⟩
  decide +kernel

/-- non-vacuity (NumPy) -/
example : ∃ ir, parseDocstring g!"S\n\nParameters\n----------\na : int\n    x\nb : str\n    y\nReturns\n-------\nint\n    r\n" false = .ok ir ∧
    keys ir.params = [g!"a", g!"b"] ∧ ir.returns.isSome := by
  refine ⟨_, rfl, ?_⟩
  decide +kernel

/-- `*args`, `args` and `**args` are one key after `_set_name_and_type`: the entries are merged, first position, last value -/
theorem star_names_merge :
    ∃ ir, parseDocstring g!"Args:\n  *args: x\n  b: w\n  args: y\n  **args: z" true = .ok ir ∧
      keys ir.params = [g!"args", g!"b"] ∧ (ir.params.find? (fun kv => kv.1 == g!"args")).map (·.2.doc) = some (some g!"z") := by
  refine ⟨_, rfl, ?_⟩
  decide +kernel

/-- a repeated name keeps its first position and takes the last value -/
theorem dup_last_wins (ps : List (Str × GParam)) (k : Str) (v : GParam) :
    ((dictInsert ps k v).find? (fun kv => kv.1 == k)).map (·.2) = some v := by
  rw [dictInsert_lookup]; rfl

/-! ### clauses that fail on the unchanged code (negations with witnesses; replayed on the real parser) -/

/-- **negation of "each parameter name is a non-empty string"**, Google: `Args:\n  : x` -/
theorem empty_name_google : ∃ ir, parseDocstring g!"Args:\n  : x" true = .ok ir ∧ [] ∈ keys ir.params := by
  refine ⟨_, rfl, ?_⟩
  decide +kernel

/-- … NumPy: a name made of blanks -/
theorem empty_name_numpydoc : ∃ ir, parseDocstring g!"Parameters\n----------\n : int\n    x" true = .ok ir ∧ [] ∈ keys ir.params := by
  refine ⟨_, rfl, ?_⟩
  decide +kernel

/-- **negation of "the type is a string that parses as a Python expression"**: the empty type, Google `name ():` -/
theorem empty_typ_google : ∃ ir, parseDocstring g!"Args:\n  foo (): x" true = .ok ir ∧ ∃ kp ∈ ir.params, kp.2.typ = some [] := by
  refine ⟨_, rfl, ?_⟩
  decide +kernel

/-- … NumPy `name : ` -/
theorem empty_typ_numpydoc : ∃ ir, parseDocstring g!"Parameters\n----------\nb : \n    x" true = .ok ir ∧ ∃ kp ∈ ir.params, kp.2.typ = some [] := by
  refine ⟨_, rfl, ?_⟩
  decide +kernel

/-- … and `Optional[]`: an empty type on an entry that follows a default (the `require_default` latch gives it the
    default `None`, hence the `Optional[…]` wrapper) -/
theorem optional_empty_google :
    ∃ ir, parseDocstring g!"Args:\n  a (int): x. Defaults to 5\n  *args (): y" true = .ok ir ∧ ∃ kp ∈ ir.params, kp.2.typ = some g!"Optional[]" := by
  refine ⟨_, rfl, ?_⟩
  decide +kernel

/-- hence the full statement is false of the model parser -/
theorem C14GN_full_false : ¬ C14GN_full := by
  intro h
  obtain ⟨ir, hp, hm⟩ := empty_name_google
  exact (h _ _ ir hp).2.1 [] hm rfl

/-- a quirk that is not a C14 clause but is worth a theorem: a Google entry without a colon raises `StopIteration`
    inside `map`, which silently ENDS the parameter list — the documented parameter `c` is dropped without an error -/
theorem colonless_entry_truncates :
    ∃ ir, parseDocstring g!"Args:\n  a: x\n  nocolon\n  c: z" true = .ok ir ∧ keys ir.params = [g!"a"] := by
  refine ⟨_, rfl, ?_⟩
  decide +kernel

end C14GN
