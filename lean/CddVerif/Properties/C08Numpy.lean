import CddVerif.Proofs.DocGNFixpointDomain
import CddVerif.Properties.C01Numpy
import CddVerif.Properties.C08
/-!
# C08 — one conversion round reaches a fixpoint: NumPy docstrings, on the model

Derived from `C01Numpy.numpy_roundtrip_full` (types emitted, `emit_types = True`, as there).

* `hopN ww edd ir` — one conversion round on the model: `Doc.emit ir .numpydoc true`, `DocGN.parseGN .numpydoc`, the parsed
  records converted back (`DocGNFix.backIR`); exceptions and abstentions are carried (with word wrap the model's `fill`
  abstains on lines of more than 100 characters).
* `hopIRN ir edd := backIR (expIRN ir true edd)` — the round-1 result, explicitly.
* **round 2 emits the very same text** (`round2_text_numpy`): every parameter of the domain declares a type, so nothing is
  inferred, and `set_default_doc` leaves a completed description alone; hence the text of round 2 can **not** differ from
  the text of round 1 (unlike ReST and Google), round 2 abstains iff round 1 does, and `round2_numpy`, `hop_hop_numpy`,
  `all_rounds_numpy` follow from round 1.
* As for Google, all of this is restricted to **no latch victim** (`NoVictim edd ir`, decidable; automatic with
  `emit_default_doc = False`): the full statement `C08_numpy_full` is refuted on a witness (`C08_numpy_full_false`): the
  default the latch gives in round 1 is documented in round 2.

Closure: as for Google the round-1 result leaves `InDomainN` when a default is carried (the word `Defaults`,
`hop_not_in_domain_numpy`); here the interface with the inferred types filled in is the interface itself
(`DocGNFix.typedUp_typed`), so "round 2 is round 1 of the same interface".  With `emit_default_doc = False` the round-1
result is in the decidable domain again (`hop_in_domain_edd_false_numpy : InDomainN ir → InDomainN (hopIRN ir false)`).
-/
namespace C08Numpy
open Py Doc DocRT DocGN DocGNRT DocGNFix DocNPRT C01Numpy

/-- **one conversion round** on the model (NumPy style, types emitted) -/
def hopN (ww edd : Bool) (ir : IR) : R IR :=
  match emit ir .numpydoc true ww edd with
  | .outside w => .outside w
  | .ok s => match parseGN .numpydoc s edd with
    | .ok g => .ok (backIR g)
    | .raises e => .raises e
    | .outside w => .outside w

def hopNO (ww edd : Bool) : R IR → R IR
  | .ok ir => hopN ww edd ir
  | x => x

/-- the round-1 result, explicitly -/
def hopIRN (ir : IR) (edd : Bool) : IR := backIR (expIRN ir true edd)

/-- **no latch victim** (decidable) -/
def NoVictim (edd : Bool) (ir : IR) : Prop := noVictimB edd false ir.params = true
instance (edd : Bool) (ir : IR) : Decidable (NoVictim edd ir) := by unfold NoVictim; infer_instance

/-- the full statement: one round is a fixpoint on the whole round-trip domain, all flags -/
def C08_numpy_full : Prop :=
  ∀ (ir : IR) (ww edd : Bool), InDomainN ir → hopNO ww edd (hopN ww edd ir) = hopN ww edd ir

/-! ### the theorems -/

/-- **round 1** -/
theorem hop_round1_numpy (ir : IR) (ww edd : Bool) (h : InDomainN ir) (s : Str) (he : emit ir .numpydoc true ww edd = .ok s) :
    hopN ww edd ir = .ok (hopIRN ir edd) := by
  unfold hopN hopIRN
  rw [he]
  simp only [numpy_roundtrip_full ir ww edd h s he]

/-- **round 2 emits the very same text** (or abstains exactly when round 1 does) -/
theorem round2_text_numpy (ir : IR) (ww edd : Bool) (h : InDomainN ir) (hv : NoVictim edd ir) :
    emit (hopIRN ir edd) .numpydoc true ww edd = emit ir .numpydoc true ww edd :=
  round2_numpy_core ir ww edd (inDomainN_sound ir h) hv

/-- **closure, `emit_default_doc = False`**: the round-1 result is in `InDomainN` again -/
theorem hop_in_domain_edd_false_numpy (ir : IR) (h : InDomainN ir) : InDomainN (hopIRN ir false) :=
  inDomainN_hop_false ir h

/-- **round 2: the second round changes nothing** -/
theorem round2_numpy (ir : IR) (ww edd : Bool) (h : InDomainN ir) (hv : NoVictim edd ir) (s : Str)
    (he : emit ir .numpydoc true ww edd = .ok s) : hopN ww edd (hopIRN ir edd) = .ok (hopIRN ir edd) := by
  have ht := round2_text_numpy ir ww edd h hv
  unfold hopN
  rw [ht, he]
  simp only [numpy_roundtrip_full ir ww edd h s he]
  rfl

/-- `hop (hop ir) = hop ir`, whether or not the model's emitter answers -/
theorem hop_hop_numpy (ir : IR) (ww edd : Bool) (h : InDomainN ir) (hv : NoVictim edd ir) :
    hopNO ww edd (hopN ww edd ir) = hopN ww edd ir := by
  cases he : emit ir .numpydoc true ww edd with
  | ok s =>
    rw [hop_round1_numpy ir ww edd h s he]
    exact round2_numpy ir ww edd h hv s he
  | outside w =>
    have : hopN ww edd ir = .outside w := by unfold hopN; rw [he]
    rw [this]; rfl

/-- **every further round** (any `n`) returns what round 1 returned -/
theorem all_rounds_numpy (ir : IR) (ww edd : Bool) (h : InDomainN ir) (hv : NoVictim edd ir) :
    ∀ n, C08.rounds (hopNO ww edd) (n + 1) (.ok ir) = hopN ww edd ir :=
  C08.fixpoint_all_rounds (hopNO ww edd) (.ok ir) (hop_hop_numpy ir ww edd h hv)

/-- … which is `hopIRN ir edd` whenever the emitter answered in round 1; for every `n ≥ 1` -/
theorem all_rounds_numpy_ok (ir : IR) (ww edd : Bool) (h : InDomainN ir) (hv : NoVictim edd ir) (s : Str)
    (he : emit ir .numpydoc true ww edd = .ok s) (n : Nat) (hn : 1 ≤ n) :
    C08.rounds (hopNO ww edd) n (.ok ir) = .ok (hopIRN ir edd) := by
  obtain ⟨k, rfl⟩ : ∃ k, n = k + 1 := ⟨n - 1, by omega⟩
  rw [all_rounds_numpy ir ww edd h hv k]
  exact hop_round1_numpy ir ww edd h s he

/-- with `emit_default_doc = False` there is never a latch victim -/
theorem noVictim_edd_false (ir : IR) : NoVictim false ir := by
  unfold NoVictim
  have : ∀ ps : List (Str × Param), noVictimB false false ps = true := by
    intro ps
    induction ps with
    | nil => rfl
    | cons np r ih => obtain ⟨n, p⟩ := np; simp [noVictimB, dfltOf, ih]
  exact this ir.params

theorem all_rounds_numpy_edd_false (ir : IR) (ww : Bool) (h : InDomainN ir) :
    ∀ n, C08.rounds (hopNO ww false) (n + 1) (.ok ir) = hopN ww false ir :=
  all_rounds_numpy ir ww false h (noVictim_edd_false ir)

/-! ### non-vacuity -/

/-- header; typed+described; typed with an integer default; typed with a boolean default.  No latch victim. -/
def exN2 : IR :=
  { doc := g!"Train it.",
    params := [
      (g!"lr", { typ := some g!"float", doc := some g!"learning rate: step size" }),
      (g!"epochs", { typ := some g!"int", doc := some g!"how long", default := some (.int 10) }),
      (g!"verbose", { typ := some g!"bool", doc := some g!"print progress,", default := some (.bool true) })] }

example : InDomainN exN2 ∧ NoVictim true exN2 ∧ NoVictim false exN2
    ∧ ([true, false].all fun ww => [true, false].all fun edd =>
        match emit exN2 .numpydoc true ww edd with | .ok _ => true | .outside _ => false) = true := by
  refine ⟨by decide +kernel, by decide +kernel, by decide +kernel, by decide +kernel⟩

/-- instance of `all_rounds_numpy` -/
example (ww edd : Bool) : ∀ n, C08.rounds (hopNO ww edd) (n + 1) (.ok exN2) = hopN ww edd exN2 := by
  have hd : InDomainN exN2 := by decide +kernel
  have hv : NoVictim edd exN2 := by cases edd <;> decide +kernel
  exact all_rounds_numpy exN2 ww edd hd hv

set_option maxRecDepth 100000 in
/-- the round-1 result on the example, and the (identical) texts of rounds 1 and 2 -/
theorem round2_text_same_numpy :
    emit exN2 .numpydoc true true true = .ok g!"Train it.\n\nParameters\n----------\nlr : float\n    learning rate: step size\nepochs : int\n    how long. Defaults to 10\nverbose : bool\n    print progress, Defaults to True\n"
    ∧ emit (hopIRN exN2 true) .numpydoc true true true = emit exN2 .numpydoc true true true := by
  constructor <;> decide +kernel

/-- the round-1 result is not in `InDomainN` when a default is carried; it is under `emit_default_doc = False` -/
theorem hop_not_in_domain_numpy : ¬ InDomainN (hopIRN exN2 true) ∧ InDomainN (hopIRN exN2 false) := by
  refine ⟨by decide +kernel, by decide +kernel⟩

/-! ### the latch breaks idempotence -/

def exLatchN : IR :=
  { params := [(g!"a", { typ := some g!"int", doc := some g!"x", default := some (.int 1) }),
               (g!"b", { typ := some g!"int", doc := some g!"y" })] }

/-- round 1 gives `b` the default `0`; round 2 documents it: the description changes -/
theorem latch_round2_changes_numpy :
    InDomainN exLatchN ∧ ¬ NoVictim true exLatchN
    ∧ hopN true true exLatchN
        = .ok { params := [(g!"a", { typ := some g!"int", doc := some g!"x. Defaults to 1", default := some (.int 1) }),
                           (g!"b", { typ := some g!"int", doc := some g!"y", default := some (.int 0) })] }
    ∧ hopNO true true (hopN true true exLatchN)
        = .ok { params := [(g!"a", { typ := some g!"int", doc := some g!"x. Defaults to 1", default := some (.int 1) }),
                           (g!"b", { typ := some g!"int", doc := some g!"y. Defaults to 0", default := some (.int 0) })] } := by
  refine ⟨by decide +kernel, by decide +kernel, by decide +kernel, by decide +kernel⟩

/-- **the full statement is false of the model** -/
theorem C08_numpy_full_false : ¬ C08_numpy_full := by
  intro h
  have := h exLatchN true true (by decide +kernel)
  revert this
  decide +kernel

end C08Numpy
