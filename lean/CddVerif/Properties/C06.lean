import CddVerif.Proofs.JsonSchema
/-!
# C06 — the emitted JSON-schema is valid, self-consistent and round-trips

Statement (properties.jsonl): *the JSON-schema emitted for an interface is serialisable JSON and a valid draft 2020-12
schema; a property is listed as required exactly when its type is not Optional, every emitted default validates
against its own property schema, and a Literal type becomes a pattern accepting exactly its members.  Parsing the
emitted schema back yields the same interface (Literal members compared as a set).*

Model: `CddVerif/Model/JsonSchema.lean` (`emit`, `parse`, `validSchema`, `validates`, `patAccepts`; the type tables are
REGENERATED from /repo into `Gen/JsonSchemaTables.lean`).  Domain: `IR.ok` — types int/float/str/bool/dict/list,
`Literal[str, …]` (members: **any printable ASCII strings** — blanks, hyphens, dots, brackets, … — without `|`, the
separator of the emitted pattern, and without `'` / `\`, which the parser does not re-escape; see `Typ.ok`),
`Optional[…]` of those; `IR.plain` is the sub-domain whose members contain no regular-expression metacharacter (the
clauses about the *meaning* of the pattern need it: the emitter does not escape); defaults typed by the
parameter's type (or `None` on an `Optional`); parameter docs arbitrary; header prose and return entry from the
trigger-free prose domain; **any number of parameters** (a Python dict has unique keys: hypothesis `Nodup` on the names).

*Serialisable JSON* holds by construction in the model (`emit` returns a `J`, the type of JSON values); on the real
code it is checked case by case (`json.dumps(allow_nan=False)` and reload) by `harness/props/c06.py`, and the equality
"emitted dict = model `J`" only holds for dicts made of JSON types.

What the unchanged code does **not** satisfy is proved as a negation with a concrete witness (each is a known finding
replayed on the real code): `pattern_not_exact`, `roundtrip_drops_none_default`, `roundtrip_splits_bar_member`,
`emitted_invalid_for_metacharacter_member`.
-/
namespace C06
open JsonSchema Py Gen.JsonSchemaTables

/-! ### vocabulary of the statements -/

/-- the names listed under `required` in a schema -/
def requiredNames : J → List Str
  | .obj kvs => match lookup js!"required" kvs with
    | some (.arr xs) => xs.filterMap J.str?
    | _ => []
  | _ => []

/-- the `properties` of a schema, in order -/
def propertiesOf : J → List (Str × J)
  | .obj kvs => match lookup js!"properties" kvs with
    | some (.obj ps) => ps
    | _ => []
  | _ => []

def keyOf (k : Str) : J → Option J
  | .obj kvs => lookup k kvs
  | _ => none

/-- parameter names are the keys of an `OrderedDict` -/
abbrev NamesUnique (ir : IR) : Prop := (ir.params.map (·.1)).Nodup

/-- element-wise relation between two lists of the same length -/
inductive Forall₂ {α β} (R : α → β → Prop) : List α → List β → Prop
  | nil : Forall₂ R [] []
  | cons {a b as bs} : R a b → Forall₂ R as bs → Forall₂ R (a :: as) (b :: bs)

/-- how the interface description writes a default: `None` is `NoneStr` -/
def Default.toIR : Default → J
  | .none => .str noneStr
  | d => d.toJ

/-- same type, `Literal` members compared as a set -/
def SameTyp (a b : Typ) : Prop :=
  a.optional = b.optional ∧
  match a.core, b.core with
  | .base x, .base y => x = y
  | .lit xs, .lit ys => ∀ m, m ∈ xs ↔ m ∈ ys
  | _, _ => False

def SameParam (pp : PParam) (p : Param) : Prop :=
  (∃ t, pp.typ = some t.render ∧ SameTyp t p.typ) ∧ pp.doc = p.doc.map J.str ∧
  pp.default = p.default.map Default.toIR ∧ pp.extra = []

/-- the parsed description is the same interface: same header prose, the same parameters in the same order (name,
    type up to the order of `Literal` members, doc, default), the same return entry.  (The function *name* is not
    part of the interface view — DESIGN §3; `parse` reads no name from an emitted schema.) -/
def SameInterface (pir : PIR) (ir : IR) : Prop :=
  pir.doc = ir.doc ∧
  Forall₂ (fun pp ip => pp.1 = ip.1 ∧ SameParam pp.2 ip.2) pir.params ir.params ∧
  match pir.returns, ir.returns with
  | none, none => True
  | some pr, some r => pr.typ = some r.typ.render ∧ pr.doc = r.doc
  | _, _ => False

/-! ### the emitter returns a schema -/

/-- `emit` returns exactly when no parameter is the ill-formed `Literal[]`, and then returns `emitT` -/
theorem emit_ok_iff (ir : IR) :
    (∃ j, emit ir = .ok j) ↔ ∀ np ∈ ir.params, np.2.typ.emitError = none := by
  have key : ∀ ps : List (Str × Param), emitError ps = none ↔ ∀ np ∈ ps, np.2.typ.emitError = none := by
    intro ps
    induction ps with
    | nil => simp [emitError]
    | cons x xs ih =>
      simp only [emitError, List.mem_cons, forall_eq_or_imp]
      cases hx : x.2.typ.emitError with
      | none => simpa using ih
      | some e => simp
  unfold emit
  cases he : emitError ir.params with
  | none => simpa using (key ir.params).mp he
  | some e =>
    simp only [reduceCtorEq, exists_false, false_iff]
    intro h
    rw [(key ir.params).mpr h] at he
    cases he

theorem emit_eq (ir : IR) (j : J) (h : emit ir = .ok j) : j = emitT ir := by
  unfold emit at h
  cases he : emitError ir.params with
  | none => rw [he] at h; cases h; rfl
  | some e => rw [he] at h; cases h

/-- **clause "the JSON-schema emitted for an interface is serialisable JSON"** — full strength: a schema (a `J`, JSON by
    construction) is emitted for *every* interface of the domain, one-member `Literal`s included. -/
theorem emits (ir : IR) (hok : ir.ok = true) : ∃ j, emit ir = .ok j := by
  apply (emit_ok_iff ir).mpr
  intro np hnp
  have h := IR.ok_params ir hok np hnp
  unfold Typ.emitError
  split
  · rename_i hc; simp [Typ.ok, hc] at h
  · rfl

/-- a one-member `Literal` (the input on which the emitter raised before the `fix:` commit) is emitted -/
example : emit { name := some js!"F", doc := [], returns := none, params :=
      [(js!"a", { typ := { optional := false, core := .lit [js!"alpha"] } })] } =
    .ok (.obj [(js!"$id", .str js!"https://offscale.io/F.schema.json"), (js!"$schema", .str schemaUrl),
               (js!"description", .str []), (js!"type", .str js!"object"),
               (js!"properties", .obj [(js!"a", .obj [(js!"type", .str js!"string"), (js!"pattern", .str js!"alpha")])]),
               (js!"required", .arr [.str js!"a"])]) := rfl

/-! ### required ⇔ not Optional -/

/-- **clause "a property is listed as required exactly when its type is not Optional"** — full strength, every
    interface (no domain restriction needed). -/
theorem required_iff_not_optional (ir : IR) (j : J) (h : emit ir = .ok j) (name : Str) :
    name ∈ requiredNames j ↔ ∃ p, (name, p) ∈ ir.params ∧ p.typ.optional = false := by
  rw [emit_eq ir j h]
  have : requiredNames (emitT ir) = emitRequired ir.params := by
    have h2 : ∀ ys : List Str, (ys.map J.str).filterMap J.str? = ys := by
      intro ys; induction ys with
      | nil => rfl
      | cons y ys ih => simpa [J.str?] using ih
    simp [requiredNames, emitT, lookup, h2]
  rw [this]
  exact mem_emitRequired ir.params name

/-- non-vacuity: a schema with a required and a non-required property -/
example : requiredNames (emitT { name := none, doc := [], returns := none, params :=
    [(js!"a", { typ := { optional := false, core := .base .int } }),
     (js!"b", { typ := { optional := true, core := .base .str } })] }) = [js!"a"] := by decide

/-! ### valid draft 2020-12 schema -/

/-- full statement of **clause "a valid draft 2020-12 schema"** on the whole domain -/
def emitted_valid_full : Prop :=
  ∀ (ir : IR) (j : J), ir.ok = true → NamesUnique ir → emit ir = .ok j → validSchema j = true

/-- **partial (proved):** every schema emitted for an interface of the domain *whose `Literal` members contain no
    regular-expression metacharacter* (`IR.plain`) satisfies the meta-schema fragment
    (`$id $schema description type properties required default pattern format`).  Missing for the full statement:
    members with metacharacters — the emitter does not escape them, see the negation below. -/
theorem emitted_valid (ir : IR) (hok : ir.ok = true) (hpl : ir.plain = true) (hnd : NamesUnique ir) (j : J)
    (h : emit ir = .ok j) : validSchema j = true := by
  rw [emit_eq ir j h]
  exact validSchema_emitT ir hok hpl hnd

/-- **negation (known finding C06-pattern-unescaped):** `Literal['a(b', 'c']` is in the domain; its pattern `a(b|c` is
    not a regular expression (`check_schema` rejects the schema — replayed on the real code; `validSchema` answers
    `false` for every pattern outside the literal-alternation alphabet, so by itself this Lean fact only says that the
    model does not vouch for the schema). -/
theorem emitted_invalid_for_metacharacter_member : ¬ emitted_valid_full := by
  intro h
  have := h { name := some js!"F", doc := [], returns := none, params :=
      [(js!"a", { typ := { optional := false, core := .lit [js!"a(b", js!"c"] } })] } _ (by decide) (by decide) rfl
  revert this
  decide

/-- the fragment is not trivially true: the schema the emitter wrote before commit 40dabda (`"description": null`) fails -/
example : validSchema (.obj [(js!"$id", .str js!"x"), (js!"description", .null), (js!"type", .str js!"object")]) = false := by decide
example : validSchema (.obj [(js!"properties", .obj [(js!"a", .obj [(js!"type", .str js!"int")])])]) = false := by decide
example : validSchema (.obj [(js!"required", .arr [.str js!"a", .str js!"a"])]) = false := by decide

/-- **table theorem** (over the REGENERATED tables): each of the six type names has a JSON type that is one of the
    meta-schema's `simpleTypes`, and the parser's table maps it back to the same name. -/
theorem tables_cover_domain (b : Base) :
    simpleTypes.contains (jsonTypeOf b.name) = true ∧ lookup (jsonTypeOf b.name) jsonType2typ = some b.name :=
  ⟨(base_tables b).2.2, (base_tables b).2.1⟩

/-! ### defaults validate -/

/-- **clause "every emitted default validates against its own property schema"** (typed-default domain `paramOk`;
    `Literal` members without metacharacters, `IR.plain`: on the real code the unescaped pattern `c+d` rejects its own
    member `c+d` — known finding C06-pattern-unescaped, outside what `patAccepts` models). -/
theorem default_validates (ir : IR) (hok : ir.ok = true) (hpl : ir.plain = true) (j : J) (h : emit ir = .ok j)
    (name : Str) (prop d : J) (hp : (name, prop) ∈ propertiesOf j) (hd : keyOf js!"default" prop = some d) :
    validates prop d = true := by
  rw [emit_eq ir j h] at hp
  have hprops : propertiesOf (emitT ir) = emitProps ir.params := by simp [propertiesOf, emitT, lookup]
  rw [hprops] at hp
  obtain ⟨np, hnp, e⟩ := List.mem_map.mp hp
  cases e
  have hpo : paramOk np.2 = true := by
    simp only [IR.ok, Bool.and_eq_true] at hok
    exact List.all_eq_true.mp hok.1.2 np hnp
  have hd' : emittedDefault np.2 = some d := by
    rw [emitProp_eq] at hd
    simpa [keyOf, lookup_default] using hd
  exact validates_default np.2 hpo (IR.plain_params ir hpl np hnp) d hd'

/-- non-vacuity of the hypotheses: `sample` (below, at `roundtrip`) is in the domain, is emitted, and its Literal
    property carries a default -/
example : (js!"d", (emitProp { typ := ⟨true, .lit [js!"x_1", js!"b2", js!"alpha"]⟩, default := some (.str js!"b2") }).1) ∈
      propertiesOf (emitT { name := none, doc := [], returns := none, params :=
        [(js!"d", { typ := ⟨true, .lit [js!"x_1", js!"b2", js!"alpha"]⟩, default := some (.str js!"b2") })] }) ∧
    keyOf js!"default" (emitProp { typ := ⟨true, .lit [js!"x_1", js!"b2", js!"alpha"]⟩, default := some (.str js!"b2") }).1
      = some (.str js!"b2") := by decide

/-- a Literal with a member default validates, a default of the wrong type would *not* -/
example : validates (emitProp { typ := ⟨false, .lit [js!"b2", js!"x_1"]⟩, default := some (.str js!"x_1") }).1 (.str js!"x_1") = true := by decide
example : validates (emitProp { typ := ⟨false, .base .int⟩ }).1 (.str js!"x") = false := by decide

/-! ### Literal → pattern -/

/-- a `Literal` parameter is emitted with `"pattern": "|".join(sorted(members))` and `"type": "string"` -/
theorem literal_becomes_pattern (p : Param) (ms : List Str) (h : p.typ.core = .lit ms) :
    keyOf js!"pattern" (emitProp p).1 = some (.str (patternOf ms)) ∧ keyOf js!"type" (emitProp p).1 = some (.str js!"string") := by
  rw [emitProp_eq]
  simp only [keyOf, lookup_pattern, lookup_type, emitType, h]
  exact ⟨rfl, by decide⟩

/-- full statement of **clause "a Literal type becomes a pattern accepting exactly its members"** -/
def pattern_exact_full : Prop :=
  ∀ (ms : List Str) (s : Str), ms ≠ [] → ms.all (fun m => m.all plainChar) = true →
    (patAccepts (patternOf ms) s = true ↔ s ∈ ms)

/-- what is true (members without regular-expression metacharacters): the pattern accepts exactly the strings that
    **contain** a member (unanchored `re.search`) -/
theorem pattern_accepts_iff_contains_member (ms : List Str) (s : Str) (hne : ms ≠ [])
    (hok : ms.all (fun m => m.all plainChar) = true) :
    patAccepts (patternOf ms) s = true ↔ ∃ m ∈ ms, isInfix m s = true :=
  patAccepts_patternOf ms hne hok s

/-- non-vacuity: members with digits, underscores, hyphens and blanks satisfy the hypotheses; a non-member containing
    no member is rejected -/
example : [js!"pre-release", js!"b2", js!"x_1", js!"long term"] ≠ [] ∧
    [js!"pre-release", js!"b2", js!"x_1", js!"long term"].all (fun m => m.all plainChar) = true ∧
    patAccepts (patternOf [js!"pre-release", js!"b2", js!"x_1", js!"long term"]) js!"long term" = true ∧
    patAccepts (patternOf [js!"pre-release", js!"b2", js!"x_1", js!"long term"]) js!"long-term" = false := by decide

/-- partial: every member is accepted -/
theorem pattern_accepts_members (ms : List Str) (m : Str) (hok : ms.all (fun m => m.all plainChar) = true) (hm : m ∈ ms) :
    patAccepts (patternOf ms) m = true :=
  (patAccepts_patternOf ms (fun e => by simp [e] at hm) hok m).mpr ⟨m, hm, contains_self m⟩

/-- **negation (known finding C06-pattern-unanchored):** `Literal['alpha', 'beta']` → `"alpha|beta"` accepts `"xalphax"` -/
theorem pattern_not_exact : ¬ pattern_exact_full := by
  intro h
  have := (h [js!"alpha", js!"beta"] js!"xalphax" (by decide) (by decide)).mp (by decide)
  revert this
  decide

/-! ### round trip -/

/-- full statement of **clause "parsing the emitted schema back yields the same interface"** -/
def roundtrip_full : Prop :=
  ∀ (ir : IR) (j : J), ir.ok = true → NamesUnique ir → emit ir = .ok j →
    ∃ pir, parse j = .ok pir ∧ SameInterface pir ir

theorem forall₂_map_left {α β} (f : α → β) (R : β → α → Prop) (l : List α) (h : ∀ a ∈ l, R (f a) a) :
    Forall₂ R (l.map f) l := by
  induction l with
  | nil => exact .nil
  | cons x xs ih => exact .cons (h x (by simp)) (ih (fun a ha => h a (by simp [ha])))

theorem sameTyp_normTyp (t : Typ) : SameTyp (normTyp t) t := by
  refine ⟨rfl, ?_⟩
  cases hc : t.core with
  | base b => simp [normTyp, hc]
  | lit ms => simp only [normTyp, hc]; exact fun m => mem_sortStrs m ms

/-- **partial (proved): the round trip holds for every interface of the domain whose defaults are not members of
    `none_types`** (`None`, and the strings `"None"` / "```(None)```") — any number of parameters, `Optional[Literal[…]]`,
    and **every member string of printable ASCII without `|`, `'`, `\`** (hyphens, blanks, dots, `+`, parentheses, …:
    no metacharacter restriction here — the parser only splits on `|`; `Typ.ok` spells out the two corner exclusions).
    Missing for the full statement: exactly those defaults, see `roundtrip_drops_none_default`; outside the domain:
    `roundtrip_splits_bar_member`. -/
theorem roundtrip (ir : IR) (j : J) (hok : ir.ok = true) (hnd : NamesUnique ir) (h : emit ir = .ok j)
    (hnone : ∀ np ∈ ir.params, ∀ d, np.2.default = some d → d.isNone = false) :
    ∃ pir, parse j = .ok pir ∧ SameInterface pir ir := by
  rw [emit_eq ir j h]
  refine ⟨expected ir, parse_emitT ir hok hnd, ?_⟩
  unfold SameInterface
  refine ⟨rfl, ?_, ?_⟩
  · apply forall₂_map_left
    intro np hnp
    refine ⟨rfl, ⟨normTyp np.2.typ, rfl, sameTyp_normTyp _⟩, rfl, ?_, rfl⟩
    simp only [expectedParam, emittedDefault]
    cases hd : np.2.default with
    | none => rfl
    | some d =>
      have := hnone np hnp d hd
      cases d with
      | none => exact absurd this (by decide)
      | str s => simp_all [Default.toIR, Default.isNone]
      | int i => rfl
      | float r => rfl
      | bool b => rfl
  · simp only [expected]
    cases ir.returns with
    | none => trivial
    | some r => exact ⟨rfl, rfl⟩

/-- non-vacuity of `roundtrip`: an interface with `Optional[Literal[…]]` (members with digits/underscores), a typed
    default, docs and a return entry satisfies every hypothesis -/
def sample : IR :=
  { name := some js!"F", doc := js!"Summary line.",
    params := [(js!"a", { typ := ⟨false, .base .int⟩, doc := some js!"the a", default := some (.int 5) }),
               (js!"d", { typ := ⟨true, .lit [js!"x_1", js!"b2", js!"alpha"]⟩, default := some (.str js!"b2") })],
    returns := some { typ := ⟨true, .base .str⟩, doc := some js!"the result" } }
example : sample.ok = true ∧ NamesUnique sample ∧ emit sample = .ok (emitT sample) ∧
    (∀ np ∈ sample.params, ∀ d, np.2.default = some d → d.isNone = false) := by
  refine ⟨by decide, by decide, rfl, ?_⟩
  decide

/-- one-member `Literal`s (also `Optional[Literal['a']]`) are in the domain of `roundtrip` and read back as themselves -/
def sampleOne : IR :=
  { name := some js!"F", doc := [], returns := none,
    params := [(js!"a", { typ := ⟨false, .lit [js!"alpha"]⟩, default := some (.str js!"alpha") }),
               (js!"b", { typ := ⟨true, .lit [js!"x_1"]⟩ })] }
example : sampleOne.ok = true ∧ NamesUnique sampleOne ∧ emit sampleOne = .ok (emitT sampleOne) ∧
    (parse (emitT sampleOne)).toOption.map (fun p => p.params.map (fun np => (np.1, np.2.typ))) =
      some [(js!"a", some js!"Literal['alpha']"), (js!"b", some js!"Optional[Literal['x_1']]")] := by
  refine ⟨by decide, by decide, rfl, by decide⟩

/-- members with hyphens, blanks, dots, `+`, parentheses are in the domain of `roundtrip` and read back as themselves
    (this is what an escaping emitter without an un-escaping parser would break) -/
def sampleWide : IR :=
  { name := some js!"F", doc := [], returns := none,
    params := [(js!"a", { typ := ⟨false, .lit [js!"pre-release", js!"stable", js!"long term"]⟩, default := some (.str js!"stable") }),
               (js!"b", { typ := ⟨true, .lit [js!"a.b", js!"c+d", js!"(x)", js!""]⟩ })] }
example : sampleWide.ok = true ∧ NamesUnique sampleWide ∧ emit sampleWide = .ok (emitT sampleWide) ∧
    (parse (emitT sampleWide)).toOption.map (fun p => p.params.map (fun np => (np.1, np.2.typ))) =
      some [(js!"a", some js!"Literal['long term', 'pre-release', 'stable']"),
            (js!"b", some js!"Optional[Literal['', '(x)', 'a.b', 'c+d']]")] := by
  refine ⟨by decide, by decide, rfl, by decide⟩

/-- why `|` is excluded from the members of the domain: `Literal['a|b', 'c']` is emitted as `a|b|c` and read back as
    `Literal['a', 'b', 'c']` (known finding C06-member-with-bar, replayed on the real code) -/
theorem roundtrip_splits_bar_member :
    (parse (emitT { name := none, doc := [], returns := none, params :=
        [(js!"a", { typ := { optional := false, core := .lit [js!"a|b", js!"c"] } })] })).toOption.map
      (fun p => p.params.map (fun np => np.2.typ)) = some [some js!"Literal['a', 'b', 'c']"] := by decide

/-- **negation (known finding C06-none-default-dropped):** `Optional[int]` with default `None`: the default is deleted by
    the emitter and absent after the round trip. -/
theorem roundtrip_drops_none_default : ¬ roundtrip_full := by
  intro h
  let w : IR := { name := some js!"F", doc := [], returns := none, params :=
      [(js!"a", { typ := ⟨true, .base .int⟩, default := some .none })] }
  obtain ⟨pir, hp, _, hparams, _⟩ := h w (emitT w) (by decide) (by decide) rfl
  rw [parse_emitT w (by decide) (by decide)] at hp
  cases hp
  cases hparams with
  | cons hhead _ =>
    have := hhead.2.2.2.1
    revert this
    decide

end C06
