import CddVerif.Model.JsonSchema
namespace C06
end C06
