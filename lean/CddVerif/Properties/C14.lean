import CddVerif.Model.Doc
/-!
# C14 — every parser returns a well-formed interface description

Proved here, for the ReST reference parser of `Model/Doc.lean` and **every input text** (not only emitter images):
whatever it returns has pairwise distinct parameter names, none of which starts with `*` (or ends in `kwargs`,
which the model leaves to the real code), at most one return entry, and only the modelled keys.
The remaining clauses (types parse as Python expressions, every signature parameter occurs exactly once, the other
parsers) are evaluated on the real parsers' outputs by the harness.
-/
namespace C14
open Py Doc

def keys (ps : List (Str × Param)) : List Str := ps.map (·.1)

/-- structural well-formedness of a parsed interface (the part of the statement that is about the mapping itself) -/
def WFnames (ir : IR) : Prop :=
  (keys ir.params).Nodup ∧ ∀ k ∈ keys ir.params, startsWith k ['*'] = false

/-- full statement over the model parser, including the clause the model parser does NOT satisfy (non-empty names) -/
def C14_full : Prop := ∀ text edd ir, parseRest text edd = .ok ir → WFnames ir ∧ ∀ k ∈ keys ir.params, k ≠ []

theorem setNameAndType_ok_name (name : Str) (p q : Param) (h : setNameAndType name p = .ok q) :
    startsWith name ['*'] = false := by
  unfold setNameAndType at h
  split at h
  · cases h
  · rename_i hc
    simp only [Bool.or_eq_true, not_or] at hc
    cases hs : startsWith name ['*'] with
    | false => rfl
    | true => exact absurd hs hc.2

theorem upsert_keys (ps : List (Str × Param)) (name : Str) (f : Param → Out Param) (ps' : List (Str × Param))
    (h : upsert ps name f = .ok ps') : keys ps' = if name ∈ keys ps then keys ps else keys ps ++ [name] := by
  induction ps generalizing ps' with
  | nil =>
    unfold upsert at h
    split at h
    · cases h; simp [keys]
    · cases h
  | cons kp rest ih =>
    obtain ⟨k, p⟩ := kp
    unfold upsert at h
    split at h
    · rename_i hk
      have hk' : k = name := by simpa using hk
      split at h
      · cases h; simp [keys, hk']
      · cases h
    · rename_i hk
      have hk' : k ≠ name := by simpa using hk
      split at h
      · rename_i r hr
        cases h
        have := ih r hr
        simp only [keys, List.map_cons, List.mem_cons] at this ⊢
        rw [this]
        have hne : ¬ (name = k) := fun e => hk' e.symm
        by_cases hm : name ∈ List.map (·.1) rest
        · simp [hm]
        · simp [hm, hne]
      · cases h

theorem upsert_nodup (ps : List (Str × Param)) (name : Str) (f : Param → Out Param) (ps' : List (Str × Param))
    (hnd : (keys ps).Nodup) (h : upsert ps name f = .ok ps') : (keys ps').Nodup := by
  rw [upsert_keys ps name f ps' h]
  split
  · exact hnd
  · rename_i hm
    rw [List.nodup_append]
    refine ⟨hnd, by simp, ?_⟩
    intro a ha b hb
    simp only [List.mem_singleton] at hb
    subst hb
    exact fun e => hm (e ▸ ha)

/-- `upsert` calls `f` on the entry it creates or updates: the call succeeded -/
theorem upsert_calls (ps : List (Str × Param)) (name : Str) (f : Param → Out Param) (ps' : List (Str × Param))
    (h : upsert ps name f = .ok ps') : ∃ p q, f p = .ok q := by
  induction ps generalizing ps' with
  | nil =>
    unfold upsert at h
    split at h
    · rename_i v hv; exact ⟨{}, v, hv⟩
    · cases h
  | cons kp rest ih =>
    obtain ⟨k, p⟩ := kp
    unfold upsert at h
    split at h
    · split at h
      · rename_i v hv; exact ⟨p, v, hv⟩
      · cases h
    · split at h
      · rename_i r hr; exact ih r hr
      · cases h

theorem mapVals_keys (f : Param → Out Param) (ps ps' : List (Str × Param)) (h : mapVals f ps = .ok ps') :
    keys ps' = keys ps := by
  induction ps generalizing ps' with
  | nil => unfold mapVals at h; cases h; rfl
  | cons kp rest ih =>
    obtain ⟨k, p⟩ := kp
    unfold mapVals at h
    split at h
    · cases h
    · split at h
      · rename_i r hr; cases h
        have := ih r hr
        simp only [keys] at this ⊢
        simp [this]
      · cases h

theorem stepChunk_wf (ir ir' : IR) (ch : List Str) (edd : Bool) (hwf : WFnames ir) (h : stepChunk ir ch edd = .ok ir') :
    WFnames ir' := by
  unfold stepChunk at h
  dsimp only at h
  split at h
  · -- return / rtype chunk: params untouched
    split at h
    · cases h
    · cases h; exact hwf
  · split at h
    · cases h
    · rename_i ps hps
      cases h
      refine ⟨upsert_nodup _ _ _ _ hwf.1 hps, ?_⟩
      intro k hk
      rw [upsert_keys _ _ _ _ hps] at hk
      split at hk
      · exact hwf.2 k hk
      · rcases List.mem_append.mp hk with hk | hk
        · exact hwf.2 k hk
        · simp only [List.mem_singleton] at hk
          subst hk
          obtain ⟨p, q, hf⟩ := upsert_calls _ _ _ _ hps
          split at hf
          · cases hf
          · exact setNameAndType_ok_name _ _ _ hf

theorem foldChunks_wf (edd : Bool) (ir ir' : IR) (chunks : List (List Str)) (hwf : WFnames ir)
    (h : foldChunks edd ir chunks = .ok ir') : WFnames ir' := by
  induction chunks generalizing ir with
  | nil => unfold foldChunks at h; cases h; exact hwf
  | cons ch rest ih =>
    unfold foldChunks at h
    split at h
    · cases h
    · rename_i ir1 h1
      exact ih ir1 (stepChunk_wf ir ir1 ch edd hwf h1) h

/-- **C14 for the ReST model parser, every input text:** whatever `parseRest` returns has pairwise distinct parameter
    names, none with a leading asterisk. -/
theorem parseRest_wf (text : Str) (edd : Bool) (ir : IR) (h : parseRest text edd = .ok ir) : WFnames ir := by
  unfold parseRest at h
  dsimp only at h
  split at h
  · cases h
  · split at h
    · cases h
    · split at h
      · cases h
      · rename_i ir0 h0
        have hwf0 : WFnames ir0 := foldChunks_wf edd _ ir0 _ ⟨by simp [keys], by simp [keys]⟩ h0
        split at h
        · cases h
        · rename_i ps hps
          have hk := mapVals_keys _ _ _ hps
          have hwf1 : WFnames { ir0 with params := ps } := by
            unfold WFnames; simp only; rw [hk]; exact hwf0
          split at h
          · cases h; exact hwf1
          · split at h
            · cases h
            · cases h; exact hwf1

/-- the structure type itself has exactly the keys typ / doc / default and at most one return entry: that part of the
    statement holds by construction of `Doc.IR` (recorded so that it is not silently assumed) -/
theorem shape_by_construction (ir : IR) : (ir.returns.isSome ∨ ir.returns.isNone) := by
  cases ir.returns <;> simp

/-- **Negation of the non-empty-name clause on the model**: the text `":param : x"` yields a parameter whose name is
    the empty string.  The harness replays this on the real parser (known finding if it agrees). -/
theorem empty_name_witness :
    ∃ ir, parseRest [':', 'p', 'a', 'r', 'a', 'm', ' ', ':', ' ', 'x'] true = .ok ir ∧ [] ∈ keys ir.params := by
  refine ⟨_, rfl, ?_⟩
  decide

/-- hence the full statement is false of the model parser -/
theorem C14_full_false : ¬ C14_full := by
  intro h
  obtain ⟨ir, hp, hm⟩ := empty_name_witness
  exact (h _ _ ir hp).2 [] hm rfl

/-- non-vacuity: a text with a repeated and a fresh parameter (`:param a: x\n:type a: int\n:param b: y`) -/
example : ∃ ir, parseRest [':', 'p', 'a', 'r', 'a', 'm', ' ', 'a', ':', ' ', 'x', '\n', ':', 't', 'y', 'p', 'e', ' ', 'a', ':', ' ', 'i', 'n', 't', '\n',
    ':', 'p', 'a', 'r', 'a', 'm', ' ', 'b', ':', ' ', 'y'] true = .ok ir ∧ keys ir.params = [['a'], ['b']] := by
  refine ⟨_, rfl, ?_⟩
  decide

end C14
