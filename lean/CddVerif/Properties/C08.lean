import CddVerif.Properties.C01
/-!
# C08 — one conversion round reaches a fixpoint

The statement is about every format; what can be *proved* are the idempotent guards of the normalisers the
docstring layer applies (the mechanism named in the property's anchors) on the character-level ports of
`set_default_doc`, `quote`, the `Optional[` wrapping of `_set_name_and_type` and `extract_default`.
The per-format statement `hop f (hop f ir) = hop f ir` (`C08_full`) is evaluated on the real code for every
format and 2–4 rounds by the harness; where the unchanged code drifts, the drift is a known finding.
-/
namespace C08
open Py Doc C01

/-- per-format fixpoint over an abstract hop (instantiated by the harness with the real emit→render→parse) -/
def C08_full {IR : Type} (hop : IR → IR) : Prop := ∀ ir, hop (hop (hop ir)) = hop (hop ir) ∧ hop (hop ir) = hop ir

/-- if one round is a fixpoint then every further round is (rounds 2..n, no bound on n) -/
def rounds {IR : Type} (hop : IR → IR) : Nat → IR → IR
  | 0, ir => ir
  | n + 1, ir => hop (rounds hop n ir)

theorem fixpoint_all_rounds {IR : Type} (hop : IR → IR) (ir : IR) (h : hop (hop ir) = hop ir) :
    ∀ n, rounds hop (n + 1) ir = hop ir := by
  intro n
  induction n with
  | zero => rfl
  | succ k ih =>
    show hop (rounds hop (k + 1) ir) = hop ir
    rw [ih, h]

theorem contains_append_left (a b p : Str) (h : contains a p = true) : contains (a ++ b) p = true := by
  induction a with
  | nil =>
    -- `contains [] p` means `p = []`
    have hp : p = [] := by
      cases p with
      | nil => rfl
      | cons _ _ => simp [contains] at h
    subst hp
    cases b <;> simp [contains]
  | cons c cs ih =>
    simp only [contains, Bool.or_eq_true] at h
    simp only [List.cons_append, contains, Bool.or_eq_true]
    rcases h with h | h
    · left
      have hpre : p <+: (c :: cs) := List.isPrefixOf_iff_prefix.mp h
      exact List.isPrefixOf_iff_prefix.mpr (hpre.trans (by simpa using List.prefix_append (c :: cs) b))
    · right; exact ih h

theorem contains_append_right (a b p : Str) (h : contains b p = true) : contains (a ++ b) p = true := by
  induction a with
  | nil => simpa using h
  | cons c cs ih => simp only [List.cons_append, contains, ih, Bool.or_true]

theorem contains_self_prefix (p rest : Str) (hne : p ≠ []) : contains (p ++ rest) p = true := by
  cases p with
  | nil => exact absurd rfl hne
  | cons c cs =>
    simp only [List.cons_append, contains, Bool.or_eq_true]
    left
    exact List.isPrefixOf_iff_prefix.mpr (by simpa using List.prefix_append (c :: cs) rest)

/-- the prose the emitter appends mentions "Defaults" -/
theorem defaultsTo_mentions : contains defaultsTo "Defaults".toList = true := by decide

/-- **`set_default_doc` is idempotent** (guard `has_defaults`): applying it to its own result appends nothing more,
    for every name, type, description, default and flag. -/
theorem setDefaultDoc_idempotent (name : Str) (p : Param) (d' : Str)
    (h : setDefaultDoc name p true = .ok (some d')) :
    setDefaultDoc name { p with doc := some d' } true = .ok (some d') := by
  unfold setDefaultDoc at h
  cases hd : p.doc with
  | none => rw [hd] at h; cases h
  | some d =>
    rw [hd] at h
    simp only [Bool.not_true, Bool.and_false, Bool.false_eq_true, if_false] at h
    -- either nothing was appended (then the same branch is taken again) or "Defaults" is now present
    cases hv : p.default with
    | none =>
      rw [hv] at h
      cases h
      unfold setDefaultDoc
      simp only [Bool.not_true, Bool.and_false, Bool.false_eq_true, if_false, hv]
    | some v =>
      rw [hv] at h
      by_cases hh : (contains d "Defaults".toList || contains d "defaults".toList) = true
      · simp only [hh, Bool.not_true, Bool.false_and, Bool.false_eq_true, if_false] at h
        cases h
        unfold setDefaultDoc
        simp only [Bool.not_true, Bool.and_false, Bool.false_eq_true, if_false, hv, hh, Bool.false_and]
      · have hh' : (contains d "Defaults".toList || contains d "defaults".toList) = false := by simpa using hh
        simp only [hh', Bool.not_false, Bool.true_and, if_true] at h
        cases h
        -- the new description contains " Defaults to "
        have hnew : ∀ base rest : Str, (contains (base ++ defaultsTo ++ rest) "Defaults".toList
            || contains (base ++ defaultsTo ++ rest) "defaults".toList) = true := by
          intro base rest
          have := contains_append_left (base ++ defaultsTo) rest _ (contains_append_right base defaultsTo _ defaultsTo_mentions)
          rw [this]; rfl
        unfold setDefaultDoc
        simp only [Bool.not_true, Bool.and_false, Bool.false_eq_true, if_false, hv, hnew, Bool.false_and]

/-- **defaults carried in the prose never change the description**: with `emit_default_doc=True`, `extract_default`
    returns the line itself, whatever it finds (so re-parsing a re-emission cannot drift the description) -/
theorem extract_keeps_line_when_carried (line : Str) (typ : Option Str) (r : Str) (v : Option Default)
    (h : extractDefault line typ true = .ok (r, v)) : r = line := by
  unfold extractDefault at h
  split at h
  · cases h
  · split at h
    · cases h; rfl
    · dsimp only at h
      split at h
      · cases h
      · simp only [if_true] at h; cases h; rfl

/-- the emitter's terminal full stop is added at most once -/
theorem baseOf_idempotent (d : Str) : baseOf (baseOf d) = baseOf d := by
  unfold baseOf
  cases hl : d.getLast? with
  | none =>
    have : d = [] := List.getLast?_eq_none_iff.mp hl
    subst this; rfl
  | some c =>
    by_cases hc : (c == '.' || c == ',') = true
    · simp only [hc, if_true, hl]
    · have hc' : (c == '.' || c == ',') = false := by simpa using hc
      simp only [hc', Bool.false_eq_true, if_false]
      have : (d ++ ['.']).getLast? = some '.' := by simp
      simp [this]

/-- `Optional[` wrapping (guard `startswith("Optional[")`) is idempotent -/
def wrapOptional (t : Str) : Str := if startsWith t optionalPrefix then t else optionalPrefix ++ t ++ [']']
theorem wrapOptional_idempotent (t : Str) : wrapOptional (wrapOptional t) = wrapOptional t := by
  unfold wrapOptional
  split
  · rename_i h; simp [h]
  · have : startsWith (optionalPrefix ++ t ++ [']']) optionalPrefix = true := by
      unfold startsWith
      exact List.isPrefixOf_iff_prefix.mpr (by rw [List.append_assoc]; exact List.prefix_append _ _)
    rw [if_pos this]

/-- quoting is idempotent (restated from C01) -/
theorem quote_idempotent (s : Str) : quote (quote s) = quote s := unquote_quote_idem s

/-- **`unquote` is NOT idempotent** — a string default that itself starts and ends with quotes loses one layer
    per application (witness `"'a'"`); the harness replays this on the real code (known finding if it drifts). -/
theorem unquote_not_idempotent : unquote (unquote ['"', '\'', 'a', '\'', '"']) ≠ unquote ['"', '\'', 'a', '\'', '"'] := by decide

end C08
