import CddVerif.Properties.C03Iface
import CddVerif.Proofs.IfaceFixpoint
/-!
# C08 on the interface model of C02 (class / pydantic / function / argparse) — and the closure hypothesis of C03

`C03Iface.single` proves that one hop `emit → render/re-read → parse` preserves the compared view on the region `Dom`;
`C03Iface.chain_iface` extends it to chains under the hypothesis `closed` (the region is closed under hops).  Here:

1. **C08 at the level of the compared view** (names, order, types, defaults, normalised descriptions):
   `hop_hop_view`, `all_rounds_view` — the second round and every later round of the same format change nothing.
2. **The `closed` hypothesis is reduced to the docstring layer.**  `inD02` and the statement's normalisation are
   *proved* invariant under hops (`Iface.inD02_congr`, `norm_view`): they read the view, `name.isSome` and the receiver
   kind only, and the closed form of a hop (`hop_closed_form`) says what those are afterwards.  What remains is
   `DocLayerStable env cfg` — the docstring layer's own round trip (`docHyp`) holds again for the interface a hop
   returned — plus the one-line law `ClsTypeLaw` (the class docstring reader answers a receiver kind among
   `static`/`self`/`cls`; the real one always answers `static`).  `closed_of_stable`, `chain_iface_stable`,
   `all_rounds_view_stable`.  `docHyp` itself is proved to be a function of the view and of the layer's *answer*
   (`Iface.classHyp_congr`, `functionHyp_congr`, `argparseReturnHyp_congr`), so for a layer whose answers depend on
   the view only and are plain (`AnswersViewOnly`, `AnswersPlain`) closure holds outright: `stable_of_laws`,
   `chain_iface_laws`.  Both sets of hypotheses are satisfiable together with `EnvOK` (`envAll_*`), and they cannot be
   dropped: `closure_fails` is an environment with `EnvOK` and `ClsTypeLaw` where an interface of `Dom` leaves `Dom`
   after one hop and the second hop *loses the descriptions* (the view changes).
3. **C08 at the level of the whole IR.**  `hop_closed_form`: on `Dom` the IR a hop returns is computed exactly — the
   names, types, defaults are the input's; header, receiver kind and raw descriptions are the layer's answers.  Hence
   `hop_hop_IR`: where the layer answers for the returned interface what that interface carries (`IRFix`), the second
   hop returns the very same IR; `argparse_hop_hop_IR` needs no hypothesis on the second docstring at all (no return
   default, header not wrapped in quotes).  `header_drift_class` / `header_drift_function`: proved witnesses where the
   views agree and the IRs differ — the header gains indentation every round (known findings `C08-header-ws-*`).
-/
namespace C08Iface
open Iface C03Iface

/-! ## 1. C08 at the level of the compared view -/

/-- `n` rounds of the same format -/
def roundsE (env : Env) (cfg : Cfg) (f : Format) (n : Nat) (ir : IR) : Except String IR :=
  chainE env cfg (List.replicate n f) ir

/-- **C08, two rounds, compared view (code formats).**  On `Dom` the first hop succeeds and preserves the view; if its
    result is in `Dom` again, the second hop succeeds and returns the view of the first: names, order, types, defaults
    and normalised descriptions are a fixpoint after one round. -/
theorem hop_hop_view (env : Env) (hEnv : EnvOK env) (cfg : Cfg) (f : Format) (ir : IR) (h : Dom env cfg ir) :
    ∃ ir1, hopE env cfg f ir = .ok ir1 ∧ ir1.view = ir.view ∧
      (Dom env cfg ir1 → ∃ ir2, hopE env cfg f ir1 = .ok ir2 ∧ ir2.view = ir1.view) := by
  obtain ⟨ir1, h1, hv1⟩ := single env hEnv cfg f ir h
  exact ⟨ir1, h1, hv1, fun h' => single env hEnv cfg f ir1 h'⟩

/-- **C08, any number of rounds, compared view:** under the closure hypothesis of `chain_iface`, every round count `n`
    succeeds, and round `n + 1` shows the same view as round `n` (and as the interface one started from). -/
theorem all_rounds_view (env : Env) (hEnv : EnvOK env) (cfg : Cfg)
    (closed : ∀ f ir ir', Dom env cfg ir → hopE env cfg f ir = .ok ir' → Dom env cfg ir')
    (f : Format) (ir : IR) (h : Dom env cfg ir) (n : Nat) :
    ∃ a b, roundsE env cfg f n ir = .ok a ∧ roundsE env cfg f (n + 1) ir = .ok b ∧ b.view = a.view ∧ a.view = ir.view := by
  obtain ⟨a, ha, hva, _⟩ := chain_iface env hEnv cfg closed (List.replicate n f) ir h
  obtain ⟨b, hb, hvb, _⟩ := chain_iface env hEnv cfg closed (List.replicate (n + 1) f) ir h
  exact ⟨a, b, ha, hb, hvb.trans hva.symm, hva⟩

/-- … and mixing formats changes nothing either: after any chain, one more hop of any format is invisible in the view -/
theorem one_more_hop_view (env : Env) (hEnv : EnvOK env) (cfg : Cfg)
    (closed : ∀ f ir ir', Dom env cfg ir → hopE env cfg f ir = .ok ir' → Dom env cfg ir')
    (fs : List Format) (g : Format) (ir : IR) (h : Dom env cfg ir) :
    ∃ a b, chainE env cfg fs ir = .ok a ∧ hopE env cfg g a = .ok b ∧ b.view = a.view := by
  obtain ⟨a, ha, _, hda⟩ := chain_iface env hEnv cfg closed fs ir h
  obtain ⟨b, hb, hvb⟩ := single env hEnv cfg g a hda
  exact ⟨a, b, ha, hb, hvb⟩

/-! ## 3a. closed form of a hop (used by part 2 as well) -/

/-- the IR a hop returns on the C02 domain (see `Iface.clsHopIR`, `fnHopIR`, `apHopIR`) -/
def hopIR (env : Env) (cfg : Cfg) : Format → IR → IR
  | .class_, ir => clsHopIR env cfg ir
  | .pydantic, ir => clsHopIR env cfg ir
  | .function, ir => fnHopIR env cfg ir
  | .argparse, ir => apHopIR env cfg ir

/-- **closed form of a hop:** inside the C02 domain of format `f`, with the docstring layer's round trip for `f`, the
    hop succeeds and returns exactly `hopIR env cfg f ir` — names, types and defaults are the input's; the header, the
    receiver kind (class) and the raw descriptions are the docstring layer's answers (descriptions tidied); argparse
    renames the interface `set_cli_args`, passes the header through `set_value` and keeps the raw descriptions. -/
theorem hop_closed_form (env : Env) (hEnv : EnvOK env) (cfg : Cfg) (f : Format) (ir : IR)
    (hD : inD02 env f cfg ir = true) (hH : docHyp env f cfg ir = true) :
    hopE env cfg f ir = .ok (hopIR env cfg f ir) := by
  cases f with
  | class_ => exact class_hop_exact env hEnv false { cfg with classBases := ["object"] } ir hD hH
  | pydantic => exact class_hop_exact env hEnv true { cfg with classBases := ["BaseModel"] } ir hD hH
  | function => exact function_hop_exact env cfg ir hD hH
  | argparse => exact argparse_hop_exact env cfg ir hD hH

theorem hop_eq_hopIR (env : Env) (hEnv : EnvOK env) (cfg : Cfg) (f : Format) (ir ir' : IR) (h : Dom env cfg ir)
    (hh : hopE env cfg f ir = .ok ir') : ir' = hopIR env cfg f ir := by
  rw [hop_closed_form env hEnv cfg f ir (h f).1 (h f).2.1] at hh
  exact (Except.ok.inj hh).symm

/-! ## 2. the closure hypothesis -/

/-- the statement's normalisation, on views -/
def normV : Format → List PV × Option PV → List PV × Option PV
  | .class_, v => v
  | .pydantic, v => v
  | .function, v => (v.1.map normPV, v.2)
  | .argparse, v => (v.1, v.2.bind (fun pv => if pv.default.isSome then some pv else none))

/-- `norm f` acts on the view -/
theorem norm_view (f : Format) (ir : IR) : (C02.norm f ir).view = normV f ir.view := by
  cases f with
  | class_ => rfl
  | pydantic => rfl
  | function => exact normFn_view ir
  | argparse => exact normArgparse_view ir

/-- the class docstring reader answers a receiver kind among `static` / `self` / `cls`
    (`cdd.docstring.parse.docstring` always answers `"static"`) -/
def ClsTypeLaw (env : Env) : Prop := ∀ s, okFnType (env.docParse .cls s) = true

/-- **the residual hypothesis:** the docstring layer's own round trip (`docHyp`, property C01's side) holds again for the
    interface a hop returned — it speaks about the docstring the layer renders for *that* interface -/
def DocLayerStable (env : Env) (cfg : Cfg) : Prop :=
  ∀ f ir ir', Dom env cfg ir → hopE env cfg f ir = .ok ir' → ∀ g, docHyp env g cfg ir' = true

/-- after a hop from `Dom`: same view, a name, a receiver kind among the three -/
theorem hop_fields (env : Env) (hEnv : EnvOK env) (hT : ClsTypeLaw env) (cfg : Cfg) (f : Format) (ir ir' : IR)
    (h : Dom env cfg ir) (hh : hopE env cfg f ir = .ok ir') :
    ir'.view = ir.view ∧ ir'.name.isSome = ir.name.isSome ∧ okFnType ir' = okFnType ir := by
  have hc : inD02Class ir = true := by have := (h .class_).1; simpa only [inD02] using this
  have hf : inD02Function env cfg ir = true := by have := (h .function).1; simpa only [inD02] using this
  have hname : ir.name.isSome = true := inD02Class_name hc
  have htype : okFnType ir = true := inD02Function_type hf
  obtain ⟨ir1, h1, hv1⟩ := single env hEnv cfg f ir h
  have e1 : ir1 = ir' := by rw [h1] at hh; exact Except.ok.inj hh
  subst e1
  have e := hop_eq_hopIR env hEnv cfg f ir ir1 h hh
  refine ⟨hv1, ?_, ?_⟩
  · rw [e, hname]
    cases f with
    | class_ => show (clsHopIR env cfg ir).name.isSome = true; rw [clsHopIR_name]; exact hname
    | pydantic => show (clsHopIR env cfg ir).name.isSome = true; rw [clsHopIR_name]; exact hname
    | function => show (fnHopIR env cfg ir).name.isSome = true; rw [fnHopIR_name]; exact hname
    | argparse => show (apHopIR env cfg ir).name.isSome = true; rw [apHopIR_name]; rfl
  · rw [e, htype]
    cases f with
    | class_ => show okFnType (clsHopIR env cfg ir) = true; exact clsHopIR_type env cfg ir hT
    | pydantic => show okFnType (clsHopIR env cfg ir) = true; exact clsHopIR_type env cfg ir hT
    | function =>
      have := fnHopIR_type env cfg ir htype
      show ((fnHopIR env cfg ir).type == some "static" || (fnHopIR env cfg ir).type == some "self" || (fnHopIR env cfg ir).type == some "cls") = true
      rw [this]; exact htype
    | argparse => exact apHopIR_type env cfg ir

/-- **`inD02` and the normalisation clause of `Dom` are invariant under hops — proved.**  Whatever the docstring layer does
    (beyond `ClsTypeLaw`), the interface a hop returns from `Dom` is again inside the C02 domain of every format, and the
    statement's normalisations are still the identity on it. -/
theorem hop_keeps_inD02 (env : Env) (hEnv : EnvOK env) (hT : ClsTypeLaw env) (cfg : Cfg) (f : Format) (ir ir' : IR)
    (h : Dom env cfg ir) (hh : hopE env cfg f ir = .ok ir') :
    ∀ g, inD02 env g cfg ir' = true ∧ (C02.norm g ir').view = ir'.view := by
  obtain ⟨hv, hn, ht⟩ := hop_fields env hEnv hT cfg f ir ir' h hh
  intro g
  refine ⟨(inD02_congr env g cfg hv hn ht).trans (h g).1, ?_⟩
  have := (h g).2.2
  rw [norm_view] at this ⊢
  rw [hv]; exact this

/-- **closure reduced to the docstring layer:** `ClsTypeLaw` and `DocLayerStable` give the hypothesis `closed` of
    `C03Iface.chain_iface` -/
theorem closed_of_stable (env : Env) (hEnv : EnvOK env) (hT : ClsTypeLaw env) (cfg : Cfg) (hS : DocLayerStable env cfg) :
    ∀ f ir ir', Dom env cfg ir → hopE env cfg f ir = .ok ir' → Dom env cfg ir' := by
  intro f ir ir' h hh g
  obtain ⟨h1, h2⟩ := hop_keeps_inD02 env hEnv hT cfg f ir ir' h hh g
  exact ⟨h1, hS f ir ir' h hh g, h2⟩

/-- conversely `DocLayerStable` is exactly what closure says about the docstring layer -/
theorem stable_of_closed (env : Env) (cfg : Cfg)
    (closed : ∀ f ir ir', Dom env cfg ir → hopE env cfg f ir = .ok ir' → Dom env cfg ir') : DocLayerStable env cfg :=
  fun f ir ir' h hh g => (closed f ir ir' h hh g).2.1

/-- **C03 (any chain) with the residual hypothesis only** -/
theorem chain_iface_stable (env : Env) (hEnv : EnvOK env) (hT : ClsTypeLaw env) (cfg : Cfg) (hS : DocLayerStable env cfg)
    (fs : List Format) (ir : IR) (h : Dom env cfg ir) :
    ∃ ir', chainE env cfg fs ir = .ok ir' ∧ ir'.view = ir.view ∧ Dom env cfg ir' :=
  chain_iface env hEnv cfg (closed_of_stable env hEnv hT cfg hS) fs ir h

/-- **C08 (any number of rounds, compared view) with the residual hypothesis only** -/
theorem all_rounds_view_stable (env : Env) (hEnv : EnvOK env) (hT : ClsTypeLaw env) (cfg : Cfg) (hS : DocLayerStable env cfg)
    (f : Format) (ir : IR) (h : Dom env cfg ir) (n : Nat) :
    ∃ a b, roundsE env cfg f n ir = .ok a ∧ roundsE env cfg f (n + 1) ir = .ok b ∧ b.view = a.view ∧ a.view = ir.view :=
  all_rounds_view env hEnv cfg (closed_of_stable env hEnv hT cfg hS) f ir h n

/-! ### closure outright, for a docstring layer whose answers depend on the view only

`docHyp` is a function of the view and of the layer's answer (`Iface.classHyp_congr`, `functionHyp_congr`,
`argparseReturnHyp_congr`); the argparse clause also reads the raw descriptions, which after a hop are the layer's own
(tidied) answers or the untouched input (`Iface.zipFinal_docs`, `backOf_docD`). -/

/-- **what `docHyp` reads:** the view, the docstring layer's answer for the interface's docstring (class / function
    reader: the parsed docstring; argparse: the docstring text) and — argparse only — the raw descriptions -/
theorem docHyp_congr (env : Env) (f : Format) (cfg : Cfg) {ir ir' : IR} (hv : ir.view = ir'.view)
    (hc : clsDocIR0 env cfg ir = clsDocIR0 env cfg ir') (hf : fnDocIR0 env cfg ir = fnDocIR0 env cfg ir')
    (ha : apRaw env cfg ir = apRaw env cfg ir')
    (hd : ir.params.map (fun kv => kv.2.doc.getD "") = ir'.params.map (fun kv => kv.2.doc.getD "")) :
    docHyp env f cfg ir = docHyp env f cfg ir' := by
  cases f with
  | class_ => show classHyp env cfg ir = classHyp env cfg ir'; exact classHyp_congr env cfg hv hc
  | pydantic => show classHyp env cfg ir = classHyp env cfg ir'; exact classHyp_congr env cfg hv hc
  | function => show functionHyp env cfg ir = functionHyp env cfg ir'; exact functionHyp_congr env cfg hv hf
  | argparse =>
    show argparseHyp env cfg ir = argparseHyp env cfg ir'
    unfold argparseHyp
    rw [argparseReturnHyp_congr env cfg hv ha]
    have : ∀ l : Dict, l.all (argparseParamHyp env cfg) =
        (l.map (fun kv => kv.2.doc.getD "")).all (fun d => env.extractDefault cfg.emitDefaultDoc d == (d, none) && setValueStr d == d) := by
      intro l; rw [List.all_map]; rfl
    rw [this, this, hd]

/-- **what `inD02` reads:** the view, whether there is a name, whether the receiver kind is `static` / `self` / `cls` -/
theorem inD02_reads (env : Env) (f : Format) (cfg : Cfg) {ir ir' : IR} (hv : ir.view = ir'.view)
    (hn : ir.name.isSome = ir'.name.isSome) (ht : okFnType ir = okFnType ir') : inD02 env f cfg ir = inD02 env f cfg ir' :=
  inD02_congr env f cfg hv hn ht

/-- **law 1:** what the docstring layer reads back from the docstring it renders for an interface depends on the
    interface's compared view only — not on the header, the receiver kind, or the whitespace / final full stop of the
    raw descriptions.  (An idealisation: the real layer echoes the raw text, so it satisfies this only up to the view.) -/
def AnswersViewOnly (env : Env) (cfg : Cfg) : Prop :=
  ∀ ir ir' : IR, ir.view = ir'.view →
    clsDocIR0 env cfg ir = clsDocIR0 env cfg ir' ∧ fnDocIR0 env cfg ir = fnDocIR0 env cfg ir' ∧ apRaw env cfg ir = apRaw env cfg ir'

/-- **law 2:** every description the layer answers is, once tidied, plain for argparse: it announces no default under
    the configured flag and is not wrapped in quotes -/
def AnswersPlain (env : Env) (cfg : Cfg) : Prop :=
  ∀ ir : IR, (∀ kv0 ∈ (clsDocIR0 env cfg ir).params, plainDoc env cfg (docAfter kv0.2.doc) = true) ∧
             (∀ kv0 ∈ (fnDocIR0 env cfg ir).params, plainDoc env cfg (docAfter kv0.2.doc) = true)

/-- under the two laws the docstring-layer hypothesis is invariant under hops — proved -/
theorem stable_of_laws (env : Env) (hEnv : EnvOK env) (cfg : Cfg) (hV : AnswersViewOnly env cfg) (hP : AnswersPlain env cfg) :
    DocLayerStable env cfg := by
  intro f ir ir' h hh g
  obtain ⟨ir1, h1, hv⟩ := single env hEnv cfg f ir h
  have e1 : ir1 = ir' := by rw [h1] at hh; exact Except.ok.inj hh
  subst e1
  obtain ⟨a1, a2, a3⟩ := hV ir1 ir hv
  cases g with
  | class_ => exact (classHyp_congr env cfg hv a1).trans (h .class_).2.1
  | pydantic => exact (classHyp_congr env cfg hv a1).trans (h .pydantic).2.1
  | function => exact (functionHyp_congr env cfg hv a2).trans (h .function).2.1
  | argparse =>
    have h0 : argparseHyp env cfg ir = true := (h .argparse).2.1
    unfold argparseHyp at h0
    simp only [Bool.and_eq_true, List.all_eq_true] at h0
    show argparseHyp env cfg ir1 = true
    unfold argparseHyp
    simp only [Bool.and_eq_true, List.all_eq_true]
    refine ⟨?_, (argparseReturnHyp_congr env cfg hv a3).trans h0.2⟩
    have e := hop_eq_hopIR env hEnv cfg f ir ir1 h hh
    intro kv hkv
    rw [argparseParamHyp_eq_plainDoc]
    rw [e] at hkv
    cases f with
    | class_ =>
      obtain ⟨kv0, hk0, hd⟩ := zipFinal_docs _ _ kv hkv
      rw [hd]; exact (hP ir).1 kv0 hk0
    | pydantic =>
      obtain ⟨kv0, hk0, hd⟩ := zipFinal_docs _ _ kv hkv
      rw [hd]; exact (hP ir).1 kv0 hk0
    | function =>
      obtain ⟨kv0, hk0, hd⟩ := zipFnFinal_docs _ _ kv hkv
      rw [hd]; exact (hP ir).2 kv0 hk0
    | argparse =>
      simp only [hopIR, apHopIR, List.mem_map] at hkv
      obtain ⟨kv', hk', rfl⟩ := hkv
      rw [← argparseParamHyp_eq_plainDoc, argparseParamHyp_of_doc env cfg (backOf kv') kv' (backOf_docD kv')]
      exact h0.1 kv' hk'

/-- **C03 / C08 with the closure hypothesis discharged** for a docstring layer obeying `ClsTypeLaw`, `AnswersViewOnly`,
    `AnswersPlain`: every chain of hops from `Dom` succeeds, preserves the view and stays in `Dom` -/
theorem chain_iface_laws (env : Env) (hEnv : EnvOK env) (hT : ClsTypeLaw env) (cfg : Cfg)
    (hV : AnswersViewOnly env cfg) (hP : AnswersPlain env cfg) (fs : List Format) (ir : IR) (h : Dom env cfg ir) :
    ∃ ir', chainE env cfg fs ir = .ok ir' ∧ ir'.view = ir.view ∧ Dom env cfg ir' :=
  chain_iface_stable env hEnv hT cfg (stable_of_laws env hEnv cfg hV hP) fs ir h

/-! ### non-vacuity: the hypotheses hold together (environment `envAll`, interface `irC` of `C03Iface`) -/

theorem envAll_clsType : ClsTypeLaw envAll := fun _ => rfl

theorem envAll_viewOnly (cfg : Cfg) : AnswersViewOnly envAll cfg := fun _ _ _ => ⟨rfl, rfl, rfl⟩

theorem envAll_cls (cfg : Cfg) (ir : IR) : clsDocIR0 envAll cfg ir = dC := by
  have : (String.ofList (Py.rstrip rawArg.toList)).toList.isEmpty = false := by decide
  unfold clsDocIR0
  simp only [envAll, this, Bool.false_eq_true, ↓reduceIte]

theorem envAll_plain (cfg : Cfg) : AnswersPlain envAll cfg := by
  intro ir
  have hfn : fnDocIR0 envAll cfg ir = dC := rfl
  rw [envAll_cls, hfn]
  have : ∀ kv0 ∈ dC.params, plainDoc envAll cfg (docAfter kv0.2.doc) = true := by
    have hall : dC.params.all (fun kv0 => setValueStr ((docAfter kv0.2.doc).getD "") == (docAfter kv0.2.doc).getD "") = true := by decide
    intro kv0 hk
    have := List.all_eq_true.mp hall kv0 hk
    simp only [plainDoc, envAll, beq_self_eq_true, Bool.true_and]
    exact this
  exact ⟨this, this⟩

/-- the residual hypothesis is satisfiable together with `EnvOK` and `ClsTypeLaw`, on a non-empty region -/
theorem envAll_stable (cfg : Cfg) : EnvOK envAll ∧ ClsTypeLaw envAll ∧ DocLayerStable envAll cfg :=
  ⟨envAll_ok, envAll_clsType, stable_of_laws envAll envAll_ok cfg (envAll_viewOnly cfg) (envAll_plain cfg)⟩

/-- … so every chain from `irC` (which is in `Dom`, `C03Iface.irC_dom`) preserves the view, with no hypothesis left -/
example (fs : List Format) : ∃ ir', chainE envAll {} fs irC = .ok ir' ∧ ir'.view = irC.view :=
  let ⟨ir', h1, h2, _⟩ := chain_iface_laws envAll envAll_ok envAll_clsType {} (envAll_viewOnly {}) (envAll_plain {}) fs irC irC_dom
  ⟨ir', h1, h2⟩

/-- … and any number of rounds of one format does -/
example (f : Format) (n : Nat) : ∃ a b, roundsE envAll {} f n irC = .ok a ∧ roundsE envAll {} f (n + 1) irC = .ok b ∧ b.view = a.view ∧ a.view = irC.view :=
  all_rounds_view_stable envAll envAll_ok envAll_clsType {} (envAll_stable {}).2.2 f irC irC_dom n

/-- non-vacuity of `hop_hop_view` with its side condition discharged: two rounds of any format from `irC` -/
example (f : Format) : ∃ ir1 ir2, hopE envAll {} f irC = .ok ir1 ∧ hopE envAll {} f ir1 = .ok ir2 ∧ ir2.view = ir1.view ∧ ir1.view = irC.view := by
  obtain ⟨ir1, h1, hv, hnext⟩ := hop_hop_view envAll envAll_ok {} f irC irC_dom
  obtain ⟨ir2, h2, hv2⟩ := hnext (closed_of_stable envAll envAll_ok envAll_clsType {} (envAll_stable {}).2.2 f irC ir1 irC_dom h1)
  exact ⟨ir1, ir2, h1, h2, hv2, hv⟩

/-! ### the residual hypothesis cannot be dropped

A docstring layer whose class reader recognises the docstring of the header `"Summary."` only, and answers it with
another header: `irC` is in `Dom`, the first class hop preserves the view — and returns an interface whose docstring the
layer no longer reads back (`docHyp` fails), so the second hop **loses every description**. -/

def envBad : Env :=
  { docEmit := fun c x => if c.purposeClass then (if x.doc == "Summary." then "A" else "B") else rawArg,
    docParse := fun c s => match c with
      | .cls => if s == "A" then { dC with doc := "Other." } else {}
      | .fn _ => dC
      | .argparse => dArg,
    extractDefault := fun _ s => (s, none), adhocTyp := fun _ _ _ => none, pyExpr := fun _ => none }

theorem envBad_ok : EnvOK envBad := by intro s _; rfl

theorem envBad_clsType : ClsTypeLaw envBad := by
  intro s
  show okFnType (if s == "A" then { dC with doc := "Other." } else {}) = true
  split <;> rfl

set_option maxRecDepth 8000 in
theorem envBad_dom : Dom envBad {} irC := by
  intro f; cases f <;> decide

set_option maxRecDepth 8000 in
/-- **closure fails without `DocLayerStable`** (with `EnvOK`, `ClsTypeLaw` and `Dom` all true): after one class hop the
    interface has left `Dom`, and the next hop changes the view -/
theorem closure_fails :
    hopE envBad {} .class_ irC = .ok (hopIR envBad {} .class_ irC) ∧
    (hopIR envBad {} .class_ irC).view = irC.view ∧
    docHyp envBad .class_ {} (hopIR envBad {} .class_ irC) = false ∧
    (∃ ir2, hopE envBad {} .class_ (hopIR envBad {} .class_ irC) = .ok ir2 ∧ ir2.view ≠ irC.view ∧
      ir2.view.1.map (·.doc) = [none, none, none, none]) := by
  refine ⟨by decide, by decide, by decide, _, rfl, by decide, by decide⟩

theorem envBad_not_stable : ¬ DocLayerStable envBad {} := by
  intro hS
  have := hS .class_ irC _ envBad_dom closure_fails.1 .class_
  rw [closure_fails.2.2.1] at this
  cases this

/-- hence the hypothesis `closed` of `C03Iface.chain_iface` is false for this environment -/
theorem envBad_not_closed :
    ¬ (∀ f ir ir', Dom envBad {} ir → hopE envBad {} f ir = .ok ir' → Dom envBad {} ir') :=
  fun closed => envBad_not_stable (stable_of_closed envBad {} closed)

/-! ## 3b. C08 at the level of the whole IR -/

/-- the sub-region of exact fixpoints: the docstring layer answers, for this interface's docstring, the header, the
    receiver kind and the (tidied) raw descriptions the interface already carries (argparse: the interface is called
    `set_cli_args`, is `static`, its header is not wrapped in quotes, no description is `""`, and the `:return:` line
    of its docstring carries its return description) -/
def IRFix (env : Env) (cfg : Cfg) (f : Format) (ir : IR) : Prop := hopIR env cfg f ir = ir

instance (env : Env) (cfg : Cfg) (f : Format) (ir : IR) : Decidable (IRFix env cfg f ir) := by unfold IRFix; infer_instance

/-- on the sub-region a hop returns its input, as an IR -/
theorem hop_self_IR (env : Env) (hEnv : EnvOK env) (cfg : Cfg) (f : Format) (ir : IR)
    (hD : inD02 env f cfg ir = true) (hH : docHyp env f cfg ir = true) (hfix : IRFix env cfg f ir) :
    hopE env cfg f ir = .ok ir := by
  rw [hop_closed_form env hEnv cfg f ir hD hH, hfix]

/-- … for any number of rounds -/
theorem rounds_self_IR (env : Env) (hEnv : EnvOK env) (cfg : Cfg) (f : Format) (ir : IR)
    (hD : inD02 env f cfg ir = true) (hH : docHyp env f cfg ir = true) (hfix : IRFix env cfg f ir) :
    ∀ n, roundsE env cfg f n ir = .ok ir
  | 0 => rfl
  | n + 1 => by
    have ih := rounds_self_IR env hEnv cfg f ir hD hH hfix n
    unfold roundsE at ih ⊢
    rw [List.replicate_succ]
    unfold chainE
    rw [hop_self_IR env hEnv cfg f ir hD hH hfix]
    exact ih

/-- **C08, whole IR (code formats):** if the interface returned by the first hop lies in the sub-region `IRFix` (and in
    the C02 domain, with the layer's round trip), the second hop returns *exactly* the same IR — `hop (hop ir) = hop ir`
    — and so does every later round. -/
theorem hop_hop_IR (env : Env) (hEnv : EnvOK env) (cfg : Cfg) (f : Format) (ir ir1 : IR)
    (hh : hopE env cfg f ir = .ok ir1)
    (hD1 : inD02 env f cfg ir1 = true) (hH1 : docHyp env f cfg ir1 = true) (hfix : IRFix env cfg f ir1) :
    hopE env cfg f ir1 = .ok ir1 ∧ ∀ n, roundsE env cfg f (n + 1) ir = .ok ir1 := by
  refine ⟨hop_self_IR env hEnv cfg f ir1 hD1 hH1 hfix, fun n => ?_⟩
  unfold roundsE
  rw [List.replicate_succ]
  unfold chainE
  rw [hh]
  exact rounds_self_IR env hEnv cfg f ir1 hD1 hH1 hfix n

set_option maxRecDepth 8000 in
/-- non-vacuity of `hop_hop_IR` for every format: with the ideal layer `envAll`, the interface each first hop returns from
    `irC` is in the C02 domain, satisfies the layer's round trip and is an exact fixpoint -/
example : ∀ f : Format, hopE envAll {} f irC = .ok (hopIR envAll {} f irC) ∧ IRFix envAll {} f (hopIR envAll {} f irC) := by
  intro f
  refine ⟨hop_closed_form envAll envAll_ok {} f irC (irC_dom f).1 (irC_dom f).2.1, ?_⟩
  cases f <;> decide

set_option maxRecDepth 8000 in
example : ∀ f : Format, inD02 envAll f {} (hopIR envAll {} f irC) = true ∧ docHyp envAll f {} (hopIR envAll {} f irC) = true := by
  intro f; cases f <;> decide

/-! ### argparse: the second hop is the identity with no hypothesis about the second docstring -/

theorem apRetFinal_none (env : Env) (cfg : Cfg) (ir : IR) (h : ir.returns.bind (·.default) = none) : apRetFinal env cfg ir = none := by
  unfold apRetFinal
  cases hr : ir.returns with
  | none => rfl
  | some r =>
    have : r.default = none := by simpa [hr] using h
    simp [this]

/-- **C08, whole IR, argparse:** for an interface of the argparse domain without a return default, the first hop
    succeeds and the second hop returns the first hop's IR with the header passed through `set_value` once more;
    nothing is assumed about the docstring of the second round. -/
theorem argparse_hop_hop_IR (env : Env) (cfg : Cfg) (ir : IR)
    (hD : inD02 env .argparse cfg ir = true) (hH : docHyp env .argparse cfg ir = true)
    (hret : ir.returns.bind (·.default) = none) :
    hopE env cfg .argparse ir = .ok (apHopIR env cfg ir) ∧
    hopE env cfg .argparse (apHopIR env cfg ir) = .ok { apHopIR env cfg ir with doc := setValueStr (setValueStr ir.doc) } := by
  have h1 : hopE env cfg .argparse ir = .ok (apHopIR env cfg ir) := argparse_hop_exact env cfg ir hD hH
  refine ⟨h1, ?_⟩
  have hr1 : (apHopIR env cfg ir).returns = none := apRetFinal_none env cfg ir hret
  -- the result is in the argparse domain again
  have hX : inD02Argparse env { ir with returns := none } = true := by
    have hD' : inD02Argparse env ir = true := hD
    unfold inD02Argparse at hD' ⊢
    simp only [Bool.and_eq_true] at hD' ⊢
    exact ⟨hD'.1, trivial⟩
  have hv : (apHopIR env cfg ir).view = ({ ir with returns := none } : IR).view := by
    unfold IR.view
    rw [hr1]
    exact Prod.ext (backOf_views ir.params) rfl
  have hD1 : inD02Argparse env (apHopIR env cfg ir) = true := (inD02Argparse_congr env hv).trans hX
  -- … and its raw descriptions are the input's
  have hH0 : argparseHyp env cfg ir = true := hH
  unfold argparseHyp at hH0
  simp only [Bool.and_eq_true, List.all_eq_true] at hH0
  have hH1 : argparseHyp env cfg (apHopIR env cfg ir) = true := by
    unfold argparseHyp
    simp only [Bool.and_eq_true, List.all_eq_true]
    constructor
    · intro kv hkv
      simp only [apHopIR, List.mem_map] at hkv
      obtain ⟨kv', hk', rfl⟩ := hkv
      rw [argparseParamHyp_of_doc env cfg (backOf kv') kv' (backOf_docD kv')]
      exact hH0.1 kv' hk'
    · unfold argparseReturnHyp; rw [hr1]
  have h2 : hopE env cfg .argparse (apHopIR env cfg ir) = .ok (apHopIR env cfg (apHopIR env cfg ir)) :=
    argparse_hop_exact env cfg _ hD1 hH1
  rw [h2]
  have hret1 : (apHopIR env cfg ir).returns.bind (·.default) = none := by rw [hr1]; rfl
  have e : apHopIR env cfg (apHopIR env cfg ir) = { apHopIR env cfg ir with doc := setValueStr (setValueStr ir.doc) } := by
    have hp : ((apHopIR env cfg ir).params.map backOf) = (apHopIR env cfg ir).params := by
      simp only [apHopIR, List.map_map]
      apply List.map_congr_left; intro kv _; exact backOf_idem kv
    have hrr : apRetFinal env cfg (apHopIR env cfg ir) = (apHopIR env cfg ir).returns := by
      rw [apRetFinal_none env cfg _ hret1, hr1]
    show ({ name := some "set_cli_args", type := some "static", doc := setValueStr (apHopIR env cfg ir).doc,
            params := (apHopIR env cfg ir).params.map backOf, returns := apRetFinal env cfg (apHopIR env cfg ir) } : IR) = _
    rw [hp, hrr]
    rfl
  rw [e]

/-- … so with a header that `set_value` leaves alone (not wrapped in one kind of quotes) the second hop returns exactly
    the IR of the first: `hop (hop ir) = hop ir` -/
theorem argparse_hop_hop_IR_eq (env : Env) (cfg : Cfg) (ir : IR)
    (hD : inD02 env .argparse cfg ir = true) (hH : docHyp env .argparse cfg ir = true)
    (hret : ir.returns.bind (·.default) = none) (hdoc : quotedLike ir.doc = false) :
    hopE env cfg .argparse ir = .ok (apHopIR env cfg ir) ∧ hopE env cfg .argparse (apHopIR env cfg ir) = .ok (apHopIR env cfg ir) := by
  obtain ⟨h1, h2⟩ := argparse_hop_hop_IR env cfg ir hD hH hret
  refine ⟨h1, ?_⟩
  rw [h2, setValueStr_id hdoc, setValueStr_id hdoc]
  have : (apHopIR env cfg ir).doc = ir.doc := by simp [apHopIR, setValueStr_id hdoc]
  rw [← this]

/-- the argparse interface of the non-vacuity examples without its return entry (`irC` has none) -/
example : inD02 envAll .argparse {} irC = true ∧ docHyp envAll .argparse {} irC = true ∧
    irC.returns.bind (·.default) = none ∧ quotedLike irC.doc = false := by decide

/-- the header condition is needed: a header wrapped twice in quotes loses one pair per round — the view does not
    contain the header.  (Replayed on the real code: `argparse_function` emit → `to_code` → `ast.parse` → `argparse_ast`
    on this interface gives the headers `"'x'"`, then `"x"`.) -/
theorem argparse_header_quotes_drift :
    hopE envAll {} .argparse { irC with doc := "''x''" } = .ok (apHopIR envAll {} { irC with doc := "''x''" }) ∧
    (apHopIR envAll {} { irC with doc := "''x''" }).doc = "'x'" ∧
    (∃ ir2, hopE envAll {} .argparse (apHopIR envAll {} { irC with doc := "''x''" }) = .ok ir2 ∧ ir2.doc = "x" ∧
      ir2.view = (apHopIR envAll {} { irC with doc := "''x''" }).view) := by
  refine ⟨by decide, by decide, _, rfl, by decide, by decide⟩

/-! ### where plain equality fails: the header gains indentation every round (class, function)

A docstring layer modelled on the real one for a header of several lines: the emitter indents the continuation lines
of the header by the docstring's indentation (class: four spaces on every line; function: eight spaces, blank lines left
empty) and the reader hands the header back as it stands.  Every hop is inside `Dom`, the views agree — the IRs differ
in the header, round after round.  On the real code the same interface `irM` gives, for class / pydantic,
`'Summary line.\n    \n    Longer description\n    over two lines.'` after round 1 (as here) and deeper indentation
after every further round; for function exactly the two headers proved below (known findings `C08-header-ws-class`,
`C08-header-ws-pydantic`, `C08-header-ws-function`).  With a one-line header neither the model nor the real code drifts. -/

def indentHeader (c : DocEmitCfg) (h : String) : String :=
  if c.purposeClass then String.ofList (Py.replace h.toList ['\n'] "\n    ".toList)
  else String.ofList (Py.replace (Py.replace h.toList ['\n'] "\n        ".toList) "\n        \n".toList "\n\n".toList)

def envDrift : Env :=
  { docEmit := fun c x => if c.purposeClass || c.indentLevel == 2 then indentHeader c x.doc else rawArg,
    docParse := fun c s => match c with
      | .cls => { dC with doc := s }
      | .fn _ => { dC with doc := s }
      | .argparse => dArg,
    extractDefault := fun _ s => (s, none), adhocTyp := fun _ _ _ => none, pyExpr := fun _ => none }

/-- `irC` with a header of several lines -/
def irM : IR := { irC with doc := "Summary line.\n\nLonger description\nover two lines." }

theorem envDrift_ok : EnvOK envDrift := by intro s _; rfl
theorem envDrift_clsType : ClsTypeLaw envDrift := fun _ => rfl

set_option maxRecDepth 8000 in
theorem envDrift_dom : Dom envDrift {} irM := by
  intro f; cases f <;> decide

/-- `irM` after one and after two class rounds: only the header differs -/
def irM1 : IR := { irM with doc := "Summary line.\n    \n    Longer description\n    over two lines." }
def irM2 : IR := { irM with doc := "Summary line.\n        \n        Longer description\n        over two lines." }

set_option maxRecDepth 8000 in
/-- **class: `hop (hop ir) ≠ hop ir` as IRs, although the views agree** (the first hop's result is in the C02 domain of
    every format and satisfies the layer's round trip, so `hop_hop_view` applies to it) -/
theorem header_drift_class :
    hopE envDrift {} .class_ irM = .ok irM1 ∧ hopE envDrift {} .class_ irM1 = .ok irM2 ∧
    irM2.view = irM1.view ∧ irM2 ≠ irM1 ∧ { irM2 with doc := irM1.doc } = irM1 := by
  refine ⟨by decide, by decide, by decide, by decide, by decide⟩

set_option maxRecDepth 8000 in
theorem irM1_dom : Dom envDrift {} irM1 := by
  intro f; cases f <;> decide

/-- `irM` after one and after two function rounds (both headers are the ones the real code produces for `irM`) -/
def irF1 : IR := { irM with doc := "Summary line.\n\n        Longer description\n        over two lines." }
def irF2 : IR := { irM with doc := "Summary line.\n\n                Longer description\n                over two lines." }

set_option maxRecDepth 8000 in
/-- **function: `hop (hop ir) ≠ hop ir` as IRs, although the views agree** -/
theorem header_drift_function :
    hopE envDrift {} .function irM = .ok irF1 ∧ hopE envDrift {} .function irF1 = .ok irF2 ∧
    irF2.view = irF1.view ∧ irF2 ≠ irF1 ∧ { irF2 with doc := irF1.doc } = irF1 := by
  refine ⟨by decide, by decide, by decide, by decide, by decide⟩

set_option maxRecDepth 8000 in
theorem irF1_dom : Dom envDrift {} irF1 := by
  intro f; cases f <;> decide

set_option maxRecDepth 8000 in
/-- so the exact-fixpoint sub-region is a proper part of `Dom`: `irM1` is in `Dom` and not in `IRFix` -/
theorem IRFix_proper : Dom envDrift {} irM1 ∧ ¬ IRFix envDrift {} .class_ irM1 ∧ ¬ IRFix envDrift {} .function irF1 :=
  ⟨irM1_dom, by decide, by decide⟩

set_option maxRecDepth 8000 in
/-- … while with a one-line header the same layer is an exact fixpoint after one round (as the real code is) -/
example : hopE envDrift {} .class_ irC = .ok (hopIR envDrift {} .class_ irC) ∧
    IRFix envDrift {} .class_ (hopIR envDrift {} .class_ irC) ∧ IRFix envDrift {} .function (hopIR envDrift {} .function irC) := by
  decide

end C08Iface
