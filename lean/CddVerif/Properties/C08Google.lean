import CddVerif.Proofs.DocGNFixpointDomain
import CddVerif.Properties.C01Google
import CddVerif.Properties.C08
/-!
# C08 — one conversion round reaches a fixpoint: Google docstrings, on the model

Derived from `C01Google.google_roundtrip_full` the way `C08Whole` derives the ReST fixpoint from `C01Whole`.

* `hopG et ww edd ir` — one conversion round on the model: `Doc.emit ir .google`, `DocGN.parseGN .google`, and the parsed
  records converted back to emitter records (`DocGNFix.backIR`); exceptions and abstentions are carried (`R`).
* `hopIRG ir edd := backIR (expIRG ir edd)` — the round-1 result, explicitly.
* **round 1** (`hop_round1_google`): on `InDomainG`, `hopG ir = .ok (hopIRG ir edd)` (the Google emitter never abstains).
* **the `require_default` latch breaks idempotence** (`C08_google_full_false`): a parameter without default after one
  with a carried default acquires a default in round 1 (C01Google), and round 2 *documents* it
  (`"y"` → `"y. Defaults to 0"`); for a `None` default round 3 changes it again (known findings C08-google-param-none-prose,
  C08-none-oscillation-*).  The full statement `C08_google_full` is kept as a definition and refuted on a witness.
* **round 2** (`round2_google`): restricted to **no latch victim** — `NoVictim edd ir`, decidable: no parameter without a
  carried default comes after one with a carried default; always true with `emit_default_doc = False`
  (`noVictim_edd_false`) — `hopG (hopIRG ir edd) = .ok (hopIRG ir edd)`; hence `hop_hop_google`, `all_rounds_google`.

## Closure

The round-1 result is **not** in `InDomainG` as soon as a default is carried: its descriptions end in
` Defaults to <v>` and the domain forbids the word `Defaults` (`hop_not_in_domain`).  No clause of `InDomainG` can be
strengthened to repair this (the prose is what carries the default).  What is closed instead, and what the proof uses:

* the emitter produces for `hopIRG ir edd` **the same text** as for `typedUp ir edd`, the original interface with the types
  round 1 inferred filled in (`round2_text_google`; `set_default_doc` leaves a completed description alone);
* **`typedUp ir edd` is in the decidable domain again** (`typedUp_in_domain : InDomainG ir → InDomainG (typedUp ir edd)`;
  proof side `typedUp_closed`), and it has the same predicted interface (`DocGNFix.expIRG_typedUp`); so round 2 *is*
  round 1 of `typedUp ir edd`;
* **with `emit_default_doc = False`** nothing is carried and the round-1 result itself is in the decidable domain again
  (`hop_in_domain_edd_false : InDomainG ir → InDomainG (hopIRG ir false)`).

The text of round 2 differs from the text of round 1 exactly where a type was inferred (`round2_text_differs_google`).
-/
namespace C08Google
open Py Doc DocRT DocGN DocGNRT DocGNFix C01Google

/-- **one conversion round** on the model (Google style) -/
def hopG (et ww edd : Bool) (ir : IR) : R IR :=
  match emit ir .google et ww edd with
  | .outside w => .outside w
  | .ok s => match parseGN .google s edd with
    | .ok g => .ok (backIR g)
    | .raises e => .raises e
    | .outside w => .outside w

/-- a round applied to the result of the previous one -/
def hopGO (et ww edd : Bool) : R IR → R IR
  | .ok ir => hopG et ww edd ir
  | x => x

/-- the round-1 result, explicitly -/
def hopIRG (ir : IR) (edd : Bool) : IR := backIR (expIRG ir edd)

/-- **no latch victim** (decidable) -/
def NoVictim (edd : Bool) (ir : IR) : Prop := noVictimB edd false ir.params = true
instance (edd : Bool) (ir : IR) : Decidable (NoVictim edd ir) := by unfold NoVictim; infer_instance

/-- the full statement: one round is a fixpoint on the whole round-trip domain, all flags -/
def C08_google_full : Prop :=
  ∀ (ir : IR) (et ww edd : Bool), InDomainG ir → hopGO et ww edd (hopG et ww edd ir) = hopG et ww edd ir

/-! ### the theorems -/

/-- **round 1** -/
theorem hop_round1_google (ir : IR) (et ww edd : Bool) (h : InDomainG ir) : hopG et ww edd ir = .ok (hopIRG ir edd) := by
  obtain ⟨s, hs⟩ := emit_google_total ir et ww edd (inDomainG_sound ir h)
  unfold hopG hopIRG
  rw [hs]
  simp only [google_roundtrip_full ir et ww edd h s hs]

/-- **round 2 produces the text of the typed-up interface** -/
theorem round2_text_google (ir : IR) (et ww edd : Bool) (h : InDomainG ir) (hv : NoVictim edd ir) :
    emit (hopIRG ir edd) .google et ww edd = emit (typedUp ir edd) .google et ww edd := by
  have g := inDomainG_sound ir h
  exact emit_back_eq ir .google et ww edd g.noRet (fun np hnp => (g.entries np hnp).base)
    (fun np hnp => (g.entries np hnp).intBool) hv

/-- **closure**: the typed-up interface is in the (proof-side) domain again -/
theorem typedUp_closed (ir : IR) (edd : Bool) (h : InDomainG ir) : GGoodIR (typedUp ir edd) :=
  gGoodIR_typedUp ir edd (inDomainG_sound ir h)

/-- **closure, decidable domain**: filling in the inferred types stays in `InDomainG` -/
theorem typedUp_in_domain (ir : IR) (edd : Bool) (h : InDomainG ir) : InDomainG (typedUp ir edd) :=
  inDomainG_typedUp ir edd h

/-- **closure, `emit_default_doc = False`**: the round-1 result is in `InDomainG` again -/
theorem hop_in_domain_edd_false (ir : IR) (h : InDomainG ir) : InDomainG (hopIRG ir false) :=
  inDomainG_hop_false ir h

/-- **round 2: the second round changes nothing** (no latch victim) -/
theorem round2_google (ir : IR) (et ww edd : Bool) (h : InDomainG ir) (hv : NoVictim edd ir) :
    hopG et ww edd (hopIRG ir edd) = .ok (hopIRG ir edd) := by
  obtain ⟨s', h1, _, h3⟩ := round2_google_core ir et ww edd (inDomainG_sound ir h) hv
  unfold hopG
  show (match emit (backIR (expIRG ir edd)) .google et ww edd with
    | .outside w => R.outside w
    | .ok s => match parseGN .google s edd with
      | .ok g => R.ok (backIR g)
      | .raises e => .raises e
      | .outside w => .outside w) = _
  rw [h1]
  simp only [h3]
  rfl

/-- `hop (hop ir) = hop ir` -/
theorem hop_hop_google (ir : IR) (et ww edd : Bool) (h : InDomainG ir) (hv : NoVictim edd ir) :
    hopGO et ww edd (hopG et ww edd ir) = hopG et ww edd ir := by
  rw [hop_round1_google ir et ww edd h]
  exact round2_google ir et ww edd h hv

/-- **every further round** (`C08.fixpoint_all_rounds` at `R IR`) -/
theorem all_rounds_google (ir : IR) (et ww edd : Bool) (h : InDomainG ir) (hv : NoVictim edd ir) :
    ∀ n, C08.rounds (hopGO et ww edd) (n + 1) (.ok ir) = .ok (hopIRG ir edd) := by
  intro n
  rw [C08.fixpoint_all_rounds (hopGO et ww edd) (.ok ir) (hop_hop_google ir et ww edd h hv) n]
  exact hop_round1_google ir et ww edd h

/-- the same, for every `n ≥ 1` -/
theorem all_rounds_google_ge (ir : IR) (et ww edd : Bool) (h : InDomainG ir) (hv : NoVictim edd ir) (n : Nat) (hn : 1 ≤ n) :
    C08.rounds (hopGO et ww edd) n (.ok ir) = .ok (hopIRG ir edd) := by
  obtain ⟨k, rfl⟩ : ∃ k, n = k + 1 := ⟨n - 1, by omega⟩
  exact all_rounds_google ir et ww edd h hv k

/-- with `emit_default_doc = False` there is never a latch victim -/
theorem noVictim_edd_false (ir : IR) : NoVictim false ir := by
  unfold NoVictim
  have : ∀ ps : List (Str × Param), noVictimB false false ps = true := by
    intro ps
    induction ps with
    | nil => rfl
    | cons np r ih => obtain ⟨n, p⟩ := np; simp [noVictimB, dfltOf, ih]
  exact this ir.params

/-- hence: with `emit_default_doc = False`, all rounds, no side condition -/
theorem all_rounds_google_edd_false (ir : IR) (et ww : Bool) (h : InDomainG ir) :
    ∀ n, C08.rounds (hopGO et ww false) (n + 1) (.ok ir) = .ok (hopIRG ir false) :=
  all_rounds_google ir et ww false h (noVictim_edd_false ir)

/-! ### non-vacuity -/

/-- header; a typed parameter; an untyped one with an integer default (its type is inferred in round 1); a typed one with
    a boolean default.  No latch victim. -/
def exG2 : IR :=
  { doc := g!"Train it.",
    params := [
      (g!"lr", { typ := some g!"float", doc := some g!"learning rate: step size" }),
      (g!"epochs", { doc := some g!"how long", default := some (.int 10) }),
      (g!"verbose", { typ := some g!"bool", doc := some g!"print progress,", default := some (.bool true) })] }

example : InDomainG exG2 ∧ NoVictim true exG2 ∧ NoVictim false exG2 := by
  refine ⟨by decide +kernel, by decide +kernel, by decide +kernel⟩

/-- instance of `all_rounds_google` on it, both settings of `emit_default_doc` -/
example (et ww edd : Bool) : ∀ n, C08.rounds (hopGO et ww edd) (n + 1) (.ok exG2) = .ok (hopIRG exG2 edd) := by
  have hd : InDomainG exG2 := by decide +kernel
  have hv : NoVictim edd exG2 := by cases edd <;> decide +kernel
  exact all_rounds_google exG2 et ww edd hd hv

set_option maxRecDepth 100000 in
/-- **the text of round 2 differs from the text of round 1** where a type was inferred (`epochs` gains `(int)`),
    and parses to the same interface by `round2_google` -/
theorem round2_text_differs_google :
    emit exG2 .google true true true = .ok g!"Train it.\n\nArgs:\n  lr (float): learning rate: step size\n  epochs: how long. Defaults to 10\n  verbose (bool): print progress, Defaults to True\n"
    ∧ emit (hopIRG exG2 true) .google true true true = .ok g!"Train it.\n\nArgs:\n  lr (float): learning rate: step size\n  epochs (int): how long. Defaults to 10\n  verbose (bool): print progress, Defaults to True\n" := by
  constructor <;> decide +kernel

/-- the round-1 result is not in `InDomainG` when a default is carried (its descriptions contain `Defaults`), but the
    typed-up interface is, and so is the round-1 result under `emit_default_doc = False` -/
theorem hop_not_in_domain :
    ¬ InDomainG (hopIRG exG2 true) ∧ InDomainG (typedUp exG2 true) ∧ InDomainG (hopIRG exG2 false) := by
  refine ⟨by decide +kernel, by decide +kernel, by decide +kernel⟩

/-! ### the latch breaks idempotence -/

/-- `a` carries a default, `b : int` has none -/
def exLatch : IR :=
  { params := [(g!"a", { doc := some g!"x", default := some (.int 1) }), (g!"b", { typ := some g!"int", doc := some g!"y" })] }

/-- round 1 gives `b` the default `0`; round 2 documents it: the description changes -/
theorem latch_round2_changes :
    InDomainG exLatch ∧ ¬ NoVictim true exLatch
    ∧ hopG true true true exLatch
        = .ok { params := [(g!"a", { typ := some g!"int", doc := some g!"x. Defaults to 1", default := some (.int 1) }),
                           (g!"b", { typ := some g!"int", doc := some g!"y", default := some (.int 0) })] }
    ∧ hopGO true true true (hopG true true true exLatch)
        = .ok { params := [(g!"a", { typ := some g!"int", doc := some g!"x. Defaults to 1", default := some (.int 1) }),
                           (g!"b", { typ := some g!"int", doc := some g!"y. Defaults to 0", default := some (.int 0) })] } := by
  refine ⟨by decide +kernel, by decide +kernel, by decide +kernel, by decide +kernel⟩

/-- **the full statement is false of the model** -/
theorem C08_google_full_false : ¬ C08_google_full := by
  intro h
  have := h exLatch true true true (by decide +kernel)
  revert this
  decide +kernel

end C08Google
