import CddVerif.Proofs.Merge
import CddVerif.Gen.SetIter
/-!
# C10 — output is a deterministic function of the input alone

* `merge_params`: the only place where the documented and the declared parameters are merged through a Python set.
  The set's iteration order is an explicit oracle; the result does not depend on it, and its key order is fully specified.
* `Gen.SetIter` (REGENERATED from /repo on every run) lists every maximal set expression of the non-test code with the
  way it is consumed; every site that is bound to a name / passed on (class 3) or iterated in an order-preserving way
  (class 4) must be one of the reviewed sites below.
-/
namespace C10
open Merge

/-- **Determinism of `merge_params`:** any two iteration orders of the `&`-set give the same dict
    (same keys, same order, same values) — the hash seed cannot influence the result. -/
theorem merge_deterministic (other target : Dict) (c₁ c₂ : List String) (p : c₁.Perm c₂) :
    mergeParams c₁ other target = mergeParams c₂ other target := by
  unfold mergeParams; rw [common_loop_order_irrelevant other target c₁ c₂ p]

/-- **Order specification:** the merged dict lists the target's parameters first, in the target's order, followed by
    the other dict's parameters the target lacks, in the other dict's order. -/
theorem merge_order_spec (common : List String) (other target : Dict) (hnd : (keys other).Nodup) :
    keys (mergeParams common other target) = keys target ++ (keys other).filter (fun k => !has target k) := by
  unfold mergeParams
  have hks : ∀ k ∈ keys other, has other k = true := fun k hk => (has_iff_mem_keys other k).mpr hk
  rw [keys_missing_loop other (keys other) hnd hks, keys_common_loop]
  congr 1
  apply List.filter_congr
  intro x _
  have : has (common.foldl (stepCommon other) target) x = has target x := by
    have e := keys_common_loop other target common
    cases h1 : has (common.foldl (stepCommon other) target) x <;> cases h2 : has target x <;> try rfl
    · have := (has_iff_mem_keys _ _).mp h2; rw [← e] at this
      have := (has_iff_mem_keys _ _).mpr this; rw [h1] at this; cases this
    · have := (has_iff_mem_keys _ _).mp h1; rw [e] at this
      have := (has_iff_mem_keys _ _).mpr this; rw [h2] at this; cases this
  rw [this]

/-- the defect repaired by commit 826698a: iterating the set *difference* made the result order-dependent -/
theorem pinned_order_sensitive :
    mergePinned [] ["a", "b"] [("a", {}), ("b", {})] [("x", {})] ≠ mergePinned [] ["b", "a"] [("a", {}), ("b", {})] [("x", {})] := by
  decide

/-- non-vacuity: a merge where both loops do something -/
example : keys (mergeParams ["b"] [("c", {}), ("b", { typ := some "int" }), ("a", {})] [("b", {}), ("x", {})]) = ["b", "x", "c", "a"] := by
  decide

/-! ### table of set expressions -/

/-- reviewed sites (digest, where and why the iteration order cannot reach an output) -/
def registry : List (Nat × String) := [
  (336956630368707757, "class_/emit.py:class_ — param_names: only `in` tests inside RewriteName / passed to emit helpers that test membership"),
  (806408740012261703, "class_/parse.py:class_ — an empty `set()` literal used as a *value* (inferred default), never iterated"),
  (185285916356625729, "compound/exmod.py:_create_sqlalchemy_mod — module __all__ as frozenset: only `symbol in all_` (symbol_to_import)"),
  (583476392577071863, "compound/exmod.py:_create_sqlalchemy_mod — module __all__ as frozenset: only `symbol in all_` (symbol_to_import)"),
  (537525673070601648, "compound/exmod_utils.py:get_module_contents — __all__ of the analysed module as frozenset: membership filter over an ordered body"),
  (101061316269406112, "docstring/utils/parse_utils.py:_union_literal_from_sentence — character class: `ch in …`"),
  (241720279117382252, "json_schema/parse.py:json_schema — `required` set: `name in required` per property"),
  (562024035350071409, "shared/ast_utils.py:<module> — module __all__ tables: only `symbol in all_`"),
  (555948964561356408, "shared/ast_utils.py:<module> — module __all__ tables: only `symbol in all_`"),
  (203406008864475273, "shared/ast_utils.py:<module> — module __all__ tables: only `symbol in all_`"),
  (759802141265832113, "shared/ast_utils.py:<module> — module __all__ tables: only `symbol in all_`"),
  (865956361668120950, "shared/ast_utils.py:optimise_imports — `seen` set: add + membership while iterating an ordered list"),
  (211767539187288469, "shared/ast_utils.py:deduplicate_sorted_imports — `seen` set: add + membership while iterating an ordered list"),
  (269823533545856997, "shared/ast_utils.py:deduplicate — `seen` set: add + membership while iterating an ordered list"),
  (51399868109562746, "shared/cst_utils.py:<module> — math_operators: consumed by `any(op in s for op in …)` (order-insensitive)"),
  (41432057410129547, "shared/cst_utils.py:<module> — augassign: consumed by `any(…)` (order-insensitive)"),
  (454631026501349444, "shared/cst_utils.py:<module> — key of multicontains2statement: `statement_frozenset & key == key`"),
  (725405777427296573, "shared/cst_utils.py:<module> — key of multicontains2statement: `statement_frozenset & key == key`"),
  (43819281039222171, "shared/docstring_utils.py:<module> — TOKENS_SET: `in` and `any(filter(startswith, …))` (order-insensitive)"),
  (196384230917939543, "shared/emit/file.py:file — `target_versions=set()` option value passed to black"),
  (174412712244795379, "shared/parse/utils/parser_utils.py:merge_params — merge_params `&` loop: iterations commute — theorem C10.merge_deterministic"),
  (531708822156616714, "shared/parse/utils/parser_utils.py:_join_non_none — _join_non_none: builds a dict from a set, then `primacy.update`; modelled in Model/JoinNonNone.lean: as a mapping the result is independent of the set order (C10Join.join_map_indep), only the key order *inside one ParamVal* can vary, exactly when two or more fresh keys exist (C10Join.join_order_differs_iff), and no emitter iterates a ParamVal (checked by the hash-seed differential with inner key order ignored)"),
  (813057370245711194, "shared/pure_utils.py:all_dunder_for_module — package-name set: membership"),
  (195094877199674373, "shared/pure_utils.py:ensure_valid_identifier — identifier character class: membership"),
  (406841448383492112, "shared/pure_utils.py:<module> — inner frozenset feeding the DUNDERS frozenset (set → set)"),
  (612888376805907351, "sqlalchemy/utils/emit_utils.py:update_with_imports_from_columns — inline frozenset used through `.__contains__`; the surrounding candidates are `sorted(frozenset(…))`"),
  (247486285756616648, "sqlalchemy/utils/parse_utils.py:<module> — sqlalchemy type-name table: membership"),
  (843596849001816793, "compound/openapi/gen_routes.py:upsert_routes — missing routes: `sorted(…, key={'post':0,'get':1,'update':2,'delete':3}.__getitem__)`; the key is injective on the method names, so the order is total"),
  -- `literal_eval` of a default VALUE: a real set exists only when the user's default is itself a set display; then its hash
  -- order does reach emitted text (KNOWN ORDER LEAK, finding C10-set-display-default; witnessed by the hash-seed differential).
  (673066225699975492, "shared/ast_utils.py:_infer_type_and_default_from_quoted — literal_eval of a default value (KNOWN LEAK for set-display defaults: C10-set-display-default)"),
  (627206203733915998, "shared/defaults_utils.py:_parse_out_default_and_doc — literal_eval('(<default text>)') converted by int/float/bool/complex/str at once; a set display raises TypeError in those constructors or is rendered by str() (KNOWN LEAK: C10-set-display-default)"),
  (1061223183251078048, "shared/defaults_utils.py:_parse_out_default_and_doc — literal_eval of the text 'True' / 'False' only"),
  (260230328897055764, "shared/docstring_parsers.py:_infer_default — literal_eval of a default AST node (KNOWN LEAK for set-display defaults: C10-set-display-default)")
]

/-- **Table theorem:** every set expression of the current non-test code that is bound, passed on or iterated in an
    order-preserving way is a reviewed site; all other set expressions are only tested for membership, sorted, or
    consumed by an order-insensitive function. -/
theorem all_order_leaks_registered :
    Gen.SetIter.sites.all (fun s => s.2 < 3 || registry.any (fun r => r.1 == s.1)) = true := by decide

end C10
