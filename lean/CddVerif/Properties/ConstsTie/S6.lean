import CddVerif.Gen.Consts
import CddVerif.Model.Doc
import CddVerif.Model.DocGN
import CddVerif.Model.DocstringUtils
import CddVerif.Model.DocSplit
import CddVerif.Model.IfaceIR
import CddVerif.Model.IfaceParse
import CddVerif.Model.IfaceEmit
import CddVerif.Model.Cst
import CddVerif.Model.Merge
import CddVerif.Model.Adhoc
import CddVerif.Model.EmitIface
import CddVerif.Model.GenImports
import CddVerif.Model.Sql
import CddVerif.Model.JsonSchema
import CddVerif.Model.DocTransCst
/-! Part 6 of the constants tie (split from one file so that a constant that moves in the source breaks only the obligations of the properties whose model copies it). -/
namespace ConstsTie
open Gen

/-! ## 6. `Model/Cst.lean` — property C09 (and C07 through the scanner) -/

/-- `Cst.contains2statement` = `contains2statement` (key ↦ name of the node class, OrderedDict order) -/
theorem cst_contains2statement_tie :
    Consts.contains2statement = Cst.contains2statement.map (fun kv => (kv.1, kv.2.toList)) := by decide
/-- `Cst.augassign` has the elements of the frozenset `augassign` (including the source's `"+=-="`) -/
theorem cst_augassign_perm_tie : List.Perm Consts.augassign Cst.augassign := by decide
/-- `Cst.mathOperators` has the elements of the frozenset `math_operators` -/
theorem cst_mathOperators_perm_tie : List.Perm Consts.mathOperators Cst.mathOperators := by decide
/-- `multicontains2statement` as `Cst.inferCstType` spells it out inline (`':'` and `'='` → `AnnAssignment`, then `'='` →
    `Assignment`) -/
theorem cst_multicontains_pinned :
    Consts.multicontains2statementS = [([":", "="], "AnnAssignment"), (["="], "Assignment")]
    ∧ Cst.inferCstType ['a',':','b','=','c'] [['a',':','b','=','c']] = "AnnAssignment"
    ∧ Cst.inferCstType ['a','=','c'] [['a','=','c']] = "Assignment" := by decide

end ConstsTie
