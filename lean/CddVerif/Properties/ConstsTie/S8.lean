import CddVerif.Gen.Consts
import CddVerif.Model.Doc
import CddVerif.Model.DocGN
import CddVerif.Model.DocstringUtils
import CddVerif.Model.DocSplit
import CddVerif.Model.IfaceIR
import CddVerif.Model.IfaceParse
import CddVerif.Model.IfaceEmit
import CddVerif.Model.Cst
import CddVerif.Model.Merge
import CddVerif.Model.Adhoc
import CddVerif.Model.EmitIface
import CddVerif.Model.GenImports
import CddVerif.Model.Sql
import CddVerif.Model.JsonSchema
import CddVerif.Model.DocTransCst
/-! Part 8 of the constants tie (split from one file so that a constant that moves in the source breaks only the obligations of the properties whose model copies it). -/
namespace ConstsTie
open Gen

/-! ## 8. `Model/Adhoc.lean` — property C17 -/

/-- `Adhoc.adhocTypeToType` = `adhoc_type_to_type` -/
theorem adhoc_adhocTypeToType_tie : Consts.adhocTypeToType = Adhoc.adhocTypeToType := by decide
/-- `Adhoc.typeToName` = `type_to_name` -/
theorem adhoc_typeToName_tie : Consts.typeToName = Adhoc.typeToName := by decide
/-- `Adhoc.simpleTypes` = the `str` keys of `simple_types` -/
theorem adhoc_simpleTypes_tie : Consts.simpleTypes = Adhoc.simpleTypes := by decide
/-- `Adhoc.tuple3ToType` = `adhoc_3_tuple_to_type` -/
theorem adhoc_tuple3ToType_tie : Consts.adhoc3TupleToType = Adhoc.tuple3ToType := by decide
/-- `Adhoc.tuple3ToCollection` = `adhoc_3_tuple_to_collection` -/
theorem adhoc_tuple3ToCollection_tie : Consts.adhoc3TupleToCollection = Adhoc.tuple3ToCollection := by decide
/-- `Adhoc.kwlist` = `keyword.kwlist` (sorted `kwset`) -/
theorem adhoc_kwlist_tie : Consts.kwlist = Adhoc.kwlist := by decide

end ConstsTie
