import CddVerif.Gen.Consts
import CddVerif.Model.Doc
import CddVerif.Model.DocGN
import CddVerif.Model.DocstringUtils
import CddVerif.Model.DocSplit
import CddVerif.Model.IfaceIR
import CddVerif.Model.IfaceParse
import CddVerif.Model.IfaceEmit
import CddVerif.Model.Cst
import CddVerif.Model.Merge
import CddVerif.Model.Adhoc
import CddVerif.Model.EmitIface
import CddVerif.Model.GenImports
import CddVerif.Model.Sql
import CddVerif.Model.JsonSchema
import CddVerif.Model.DocTransCst
/-! Part 0 of the constants tie (split from one file so that a constant that moves in the source breaks only the obligations of the properties whose model copies it). -/
namespace ConstsTie
open Gen

/-! ## 0. the two forms of the generated table agree (`xS` = `x` as `String`s) -/

theorem gen_forms_strs :
    Consts.defaultsToVariantsS.map String.toList = Consts.defaultsToVariants
    ∧ Consts.tokensRestS.map String.toList = Consts.tokensRest
    ∧ Consts.tokensGoogleS.map String.toList = Consts.tokensGoogle
    ∧ Consts.tokensNumpydocS.map String.toList = Consts.tokensNumpydoc
    ∧ Consts.tokensSetS.map String.toList = Consts.tokensSet
    ∧ Consts.numpydocTokensSetS.map String.toList = Consts.numpydocTokensSet
    ∧ Consts.simpleTypesS.map String.toList = Consts.simpleTypes
    ∧ Consts.resolveArgRequiredTypsS.map String.toList = Consts.resolveArgRequiredTyps
    ∧ Consts.mathOperatorsS.map String.toList = Consts.mathOperators
    ∧ Consts.augassignS.map String.toList = Consts.augassign
    ∧ Consts.kwlistS.map String.toList = Consts.kwlist := by decide

theorem gen_forms_scalars :
    Consts.noneStrS.toList = Consts.noneStr ∧ Consts.tabS.toList = Consts.tab
    ∧ Consts.fallbackTypS.toList = Consts.fallbackTyp
    ∧ Consts.setDefaultDocTemplateS.toList = Consts.setDefaultDocTemplate
    ∧ Consts.noneTypesS.map (Option.map String.toList) = Consts.noneTypes
    ∧ Consts.simpleTypesZeroS.map (fun t => (t.1.toList, t.2.1.toList, t.2.2.toList)) = Consts.simpleTypesZero
    ∧ Consts.typeToNameS.map (fun t => (t.1.toList, t.2.toList)) = Consts.typeToName
    ∧ Consts.contains2statementS.map (fun t => (t.1.toList, t.2.toList)) = Consts.contains2statement := by decide

end ConstsTie
