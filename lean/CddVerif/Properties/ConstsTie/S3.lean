import CddVerif.Gen.Consts
import CddVerif.Model.Doc
import CddVerif.Model.DocGN
import CddVerif.Model.DocstringUtils
import CddVerif.Model.DocSplit
import CddVerif.Model.IfaceIR
import CddVerif.Model.IfaceParse
import CddVerif.Model.IfaceEmit
import CddVerif.Model.Cst
import CddVerif.Model.Merge
import CddVerif.Model.Adhoc
import CddVerif.Model.EmitIface
import CddVerif.Model.GenImports
import CddVerif.Model.Sql
import CddVerif.Model.JsonSchema
import CddVerif.Model.DocTransCst
/-! Part 3 of the constants tie (split from one file so that a constant that moves in the source breaks only the obligations of the properties whose model copies it). -/
namespace ConstsTie
open Gen

/-! ## 3. `Model/DocGN.lean` — property C14 (Google / NumPy), C01 / C08 Google and NumPy parts -/

/-- `DocGN.restTokensAll` = `TOKENS.rest` (first test of `derive_docstring_format`) -/
theorem docgn_restTokensAll_tie : Consts.tokensRest = DocGN.restTokensAll := by decide
/-- `DocGN.googleTokensAll` = `TOKENS.google` (second test of `derive_docstring_format`) -/
theorem docgn_googleTokensAll_tie : Consts.tokensGoogle = DocGN.googleTokensAll := by decide
/-- `DocGN.argTok` / `retTok` = the single token of `ARG_TOKENS` / `RETURN_TOKENS` for the two styles;
    `retTokLines` = `return_tokens[0].splitlines()` -/
theorem docgn_argTok_retTok_tie :
    Consts.argTokensGoogle = [DocGN.argTok .google] ∧ Consts.argTokensNumpydoc = [DocGN.argTok .numpydoc]
    ∧ Consts.returnTokensGoogle = [DocGN.retTok .google] ∧ Consts.returnTokensNumpydoc = [DocGN.retTok .numpydoc]
    ∧ Consts.returnTokensGoogle.map (fun t => Py.split1 t '\n') = [DocGN.retTokLines .google]
    ∧ Consts.returnTokensNumpydoc.map (fun t => Py.split1 t '\n') = [DocGN.retTokLines .numpydoc] := by decide

/-- `(type(v).__name__, repr(v))` of a modelled default value (for the zero values of `simple_types`) -/
def dfltRepr : DocGN.Dflt → List Char × List Char
  | .base (.int i) => (DocGN.tyName (.base (.int i)), Py.intToStr i)
  | .base (.float r) => (DocGN.tyName (.base (.float r)), r)
  | .base (.bool b) => (DocGN.tyName (.base (.bool b)), if b then Doc.sTrue else Doc.sFalse)
  | .base (.str s) => (DocGN.tyName (.base (.str s)), ['\''] ++ s ++ ['\''])
  | .base .none => (['s','t','r'], Doc.noneStr)
  | .base (.code s) => (['s','t','r'], s)
  | .complex0 => (DocGN.tyName .complex0, ['0','j'])
  | .tuple0 => (DocGN.tyName .tuple0, ['(',')'])
/-- `DocGN.simpleDefault` = `simple_types[typ]` on every `str` key: same type and same `repr` of the zero value;
    and `NoneStr` for a type that is not a key -/
theorem docgn_simpleDefault_tie :
    Consts.simpleTypesZero.map (fun t => (t.1, dfltRepr (DocGN.simpleDefault (some t.1)))) = Consts.simpleTypesZero
    ∧ DocGN.simpleDefault (some ['d','i','c','t']) = .base .none ∧ DocGN.simpleDefault none = .base .none := by decide
/-- `DocGN.evalKnown` (type names whose `eval` succeeds) = exactly the values the tables of `parse_utils.py` /
    `type_to_name` can propose, apart from `"None"` -/
def proposableTypes : List (List Char) :=
  Consts.adhocTypeToType.map (·.2) ++ Consts.adhoc3TupleToType.map (·.2) ++ Consts.adhoc3TupleToCollection.map (·.2)
    ++ Consts.typeToName.map (·.2)
theorem docgn_evalKnown_tie :
    (∀ t ∈ proposableTypes, t ≠ ['N','o','n','e'] → t ∈ DocGN.evalKnown) ∧ (∀ t ∈ DocGN.evalKnown, t ∈ proposableTypes) := by
  decide

end ConstsTie
