import CddVerif.Gen.Consts
import CddVerif.Model.Doc
import CddVerif.Model.DocGN
import CddVerif.Model.DocstringUtils
import CddVerif.Model.DocSplit
import CddVerif.Model.IfaceIR
import CddVerif.Model.IfaceParse
import CddVerif.Model.IfaceEmit
import CddVerif.Model.Cst
import CddVerif.Model.Merge
import CddVerif.Model.Adhoc
import CddVerif.Model.EmitIface
import CddVerif.Model.GenImports
import CddVerif.Model.Sql
import CddVerif.Model.JsonSchema
import CddVerif.Model.DocTransCst
/-! Part 4 of the constants tie (split from one file so that a constant that moves in the source breaks only the obligations of the properties whose model copies it). -/
namespace ConstsTie
open Gen

/-! ## 4. `Model/DocstringUtils.lean`, `Model/DocSplit.lean` — properties C11, C15 -/

/-- `DocUtils.restTokens` = `TOKENS.rest` -/
theorem docutils_restTokens_tie : Consts.tokensRestS = DocUtils.restTokens := by decide
/-- `DocUtils.googleTokens` = `TOKENS.google` -/
theorem docutils_googleTokens_tie : Consts.tokensGoogleS = DocUtils.googleTokens := by decide
/-- `DocUtils.numpySet` = `NUMPYDOC_TOKENS_SET` (sorted) -/
theorem docutils_numpySet_tie : Consts.numpydocTokensSetS = DocUtils.numpySet := by decide
/-- `DocUtils.tokensSet` has the elements of the frozenset `TOKENS_SET` (only membership is used) -/
theorem docutils_tokensSet_perm_tie :
    List.Perm Consts.tokensSet (DocUtils.tokensSet.map String.toList) := by decide
/-- the `"Raises:"` literal of `DocUtils` (`_get_token_last_idx`'s test) is `TOKENS.google[2]`; `DocSplit` copies no
    constant of its own (it uses `DocUtils`' sets through `tokenStartIdx` / `tokenLastIdx`) -/
theorem docutils_raises_pinned : Consts.tokensGoogleS[2]? = some "Raises:" := by decide

end ConstsTie
