import CddVerif.Gen.Consts
import CddVerif.Model.Doc
import CddVerif.Model.DocGN
import CddVerif.Model.DocstringUtils
import CddVerif.Model.DocSplit
import CddVerif.Model.IfaceIR
import CddVerif.Model.IfaceParse
import CddVerif.Model.IfaceEmit
import CddVerif.Model.Cst
import CddVerif.Model.Merge
import CddVerif.Model.Adhoc
import CddVerif.Model.EmitIface
import CddVerif.Model.GenImports
import CddVerif.Model.Sql
import CddVerif.Model.JsonSchema
import CddVerif.Model.DocTransCst
/-! Part 5 of the constants tie (split from one file so that a constant that moves in the source breaks only the obligations of the properties whose model copies it). -/
namespace ConstsTie
open Gen

/-! ## 5. `Model/IfaceIR.lean`, `IfaceParse.lean`, `IfaceEmit.lean` — property C02 (C03, C14 interface parts) -/

/-- `Iface.NoneStr` = `NoneStr` -/
theorem iface_NoneStr_tie : Consts.noneStrS = Iface.NoneStr := by decide
/-- `Iface.simpleTypes` = the `str` keys of `simple_types` -/
theorem iface_simpleTypes_tie : Consts.simpleTypesS = Iface.simpleTypes := by decide
/-- `Iface.zeroOf` = `simple_types[typ]` on every `str` key: (`type(v).__name__`, `repr(v)`) agree -/
theorem iface_zeroOf_tie :
    Consts.simpleTypesZeroS.map (fun t => (t.1, (Iface.zeroOf t.1).typeName, (Iface.zeroOf t.1).text)) = Consts.simpleTypesZeroS := by
  decide
/-- `none_types = (None, "None", NoneStr)`: `Iface.Default.inNoneTypes` / `Iface.isNoneLike` accept exactly these -/
theorem iface_noneTypes_tie :
    Consts.noneTypesS = [none, some "None", some Iface.NoneStr]
    ∧ Consts.noneTypesS.all (fun o => match o with | none => Iface.isNoneLike none | some s => (Iface.Default.str s).inNoneTypes) = true := by
  decide
/-- `Iface.requiredLower` = the `frozenset((…))` literal of `_resolve_arg` (source order) -/
theorem iface_requiredLower_tie : Consts.resolveArgRequiredTypsS = Iface.requiredLower := by decide
/-- `FALLBACK_TYP` is the `"str"` that `Iface.stepName` falls back to on an unknown name -/
theorem iface_fallbackTyp_pinned :
    Iface.stepName (none, none, none) "Foo" = (none, none, some Consts.fallbackTypS) := by decide

end ConstsTie
