import CddVerif.Gen.Consts
import CddVerif.Model.Doc
import CddVerif.Model.DocGN
import CddVerif.Model.DocstringUtils
import CddVerif.Model.DocSplit
import CddVerif.Model.IfaceIR
import CddVerif.Model.IfaceParse
import CddVerif.Model.IfaceEmit
import CddVerif.Model.Cst
import CddVerif.Model.Merge
import CddVerif.Model.Adhoc
import CddVerif.Model.EmitIface
import CddVerif.Model.GenImports
import CddVerif.Model.Sql
import CddVerif.Model.JsonSchema
import CddVerif.Model.DocTransCst
/-! Part 2 of the constants tie (split from one file so that a constant that moves in the source breaks only the obligations of the properties whose model copies it). -/
namespace ConstsTie
open Gen

/-! ## 2. `Model/Doc.lean` — properties C01, C08, C14 -/

/-- `Doc.announceVariants` = `DEFAULTS_TO_VARIANTS` -/
theorem doc_announceVariants_tie : Consts.defaultsToVariants = Doc.announceVariants := by decide
/-- `Doc.noneStr` = `NoneStr` -/
theorem doc_noneStr_tie : Consts.noneStr = Doc.noneStr := by decide
/-- `Doc.tab` = `pure_utils.tab` -/
theorem doc_tab_tie : Consts.tab = Doc.tab := by decide
/-- `Doc.simpleTypes` = the `str` keys of `simple_types`, in order -/
theorem doc_simpleTypes_tie : Consts.simpleTypes = Doc.simpleTypes := by decide
/-- `simple_types` has exactly one more key, `None ↦ None` (the model's `typ : Option Str` is `none` there) -/
theorem simpleTypes_otherKeys_pinned :
    Consts.simpleTypesOtherKeysS = [("None", "NoneType", "None")] := by decide
/-- `none_types = (None, "None", NoneStr)`: what `Doc.isNoneVal` tests (`Default.none`, `.str sNone`) -/
theorem doc_noneTypes_tie : Consts.noneTypes = [none, some Doc.sNone, some Doc.noneStr] := by decide
/-- `Doc.defaultsTo` is what stands between the two fields of `set_default_doc`'s template `"{doc} Defaults to {default}"` -/
theorem doc_defaultsTo_tie :
    Consts.setDefaultDocTemplate = ['{','d','o','c','}'] ++ Doc.defaultsTo ++ ['{','d','e','f','a','u','l','t','}'] := by decide
/-- `Doc.allRestTokens` = `TOKENS.rest` -/
theorem doc_allRestTokens_tie : Consts.tokensRest = Doc.allRestTokens := by decide
/-- the four fields `Doc.parseRest` abstains on (`"raises / cvar / ivar / var field"`) -/
def docAbstainedRestTokens : List (List Char) :=
  [[':','r','a','i','s','e','s'], [':','c','v','a','r'], [':','i','v','a','r'], [':','v','a','r']]
/-- `Doc.restTokens` (the chunk starters of the reference parser) = `TOKENS.rest` without the four fields the model
    abstains on — a documented subset, in the source's order -/
theorem doc_restTokens_tie :
    Doc.restTokens = Consts.tokensRest.filter (fun t => !docAbstainedRestTokens.contains t) := by decide
/-- `Doc.argToken` = `ARG_TOKENS.<style>[0]`, `Doc.returnToken` = `RETURN_TOKENS.<style>[0]` -/
theorem doc_argToken_returnToken_tie :
    Consts.argTokensRest.head? = some (Doc.argToken .rest)
    ∧ Consts.argTokensGoogle = [Doc.argToken .google] ∧ Consts.argTokensNumpydoc = [Doc.argToken .numpydoc]
    ∧ Consts.returnTokensRest.head? = some (Doc.returnToken .rest)
    ∧ Consts.returnTokensGoogle = [Doc.returnToken .google] ∧ Consts.returnTokensNumpydoc = [Doc.returnToken .numpydoc] := by
  decide
/-- `Doc.fillLine` (the model of `fill = partial(textwrap.fill, width=line_length)`) is the identity up to exactly
    `line_length` columns and abstains from `line_length + 1` on (the `100` is an inline literal of the model) -/
theorem doc_lineLength_pinned :
    Doc.fillLine true (List.replicate Consts.lineLength 'a') = .ok (List.replicate Consts.lineLength 'a')
    ∧ Doc.fillLine true (List.replicate (Consts.lineLength + 1) 'a') = .outside "textwrap.fill would re-flow this line" := by
  decide +kernel
/-- the names `Doc.tyName` gives to the zero values are the keys under which `simple_types` stores a value of that type
    (`int`, `float`, `bool`, `str`; `complex` has no `Doc.Default`) -/
theorem doc_tyName_tie :
    [Doc.tyName (.int 0), Doc.tyName (.float ['0','.','0']), Doc.tyName (.str []), Doc.tyName (.bool false)]
      = (Consts.simpleTypesZero.filter (fun t => t.1 != ['c','o','m','p','l','e','x'])).map (fun t => t.1)
    ∧ Consts.simpleTypesZero.map (fun t => t.1) = Consts.simpleTypesZero.map (fun t => t.2.1) := by
  decide

end ConstsTie
