import CddVerif.Gen.Consts
import CddVerif.Model.Doc
import CddVerif.Model.DocGN
import CddVerif.Model.DocstringUtils
import CddVerif.Model.DocSplit
import CddVerif.Model.IfaceIR
import CddVerif.Model.IfaceParse
import CddVerif.Model.IfaceEmit
import CddVerif.Model.Cst
import CddVerif.Model.Merge
import CddVerif.Model.Adhoc
import CddVerif.Model.EmitIface
import CddVerif.Model.GenImports
import CddVerif.Model.Sql
import CddVerif.Model.JsonSchema
import CddVerif.Model.DocTransCst
/-! Part 1 of the constants tie (split from one file so that a constant that moves in the source breaks only the obligations of the properties whose model copies it). -/
namespace ConstsTie
open Gen

/-! ## 1. internal structure of the source's token tables (what the models' inline token literals rely on) -/

/-- `ARG_TOKENS` / `RETURN_TOKENS` / `TOKENS_SET` / `NUMPYDOC_TOKENS_SET` are the slices of `TOKENS` the source
    says they are (so that tying the models to `TOKENS` ties them to all of these). -/
theorem source_tokens_structure :
    Consts.argTokensRest = Consts.tokensRest.take 6 ∧ Consts.returnTokensRest = Consts.tokensRest.drop 6
    ∧ Consts.argTokensGoogle = Consts.tokensGoogle.take 1 ∧ Consts.returnTokensGoogle = Consts.tokensGoogle.drop 3
    ∧ Consts.argTokensNumpydoc = Consts.tokensNumpydoc.take 1 ∧ Consts.returnTokensNumpydoc = Consts.tokensNumpydoc.drop 1
    ∧ Consts.tokensFields = Consts.docstringFormats
    ∧ Consts.numpydocTokensSet = Consts.tokensNumpydoc.map (fun t => t.takeWhile (· != '\n'))
    ∧ List.Perm Consts.tokensSet
        ((Consts.tokensRest ++ Consts.tokensGoogle ++ Consts.tokensNumpydoc).map (fun t => t.takeWhile (· != '\n'))) := by
  decide

end ConstsTie
