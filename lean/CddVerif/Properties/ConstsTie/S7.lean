import CddVerif.Gen.Consts
import CddVerif.Model.Doc
import CddVerif.Model.DocGN
import CddVerif.Model.DocstringUtils
import CddVerif.Model.DocSplit
import CddVerif.Model.IfaceIR
import CddVerif.Model.IfaceParse
import CddVerif.Model.IfaceEmit
import CddVerif.Model.Cst
import CddVerif.Model.Merge
import CddVerif.Model.Adhoc
import CddVerif.Model.EmitIface
import CddVerif.Model.GenImports
import CddVerif.Model.Sql
import CddVerif.Model.JsonSchema
import CddVerif.Model.DocTransCst
/-! Part 7 of the constants tie (split from one file so that a constant that moves in the source breaks only the obligations of the properties whose model copies it). -/
namespace ConstsTie
open Gen

/-! ## 7. `Model/Merge.lean` — property C10 -/

/-- `Merge.simpleTypes` = the `str` keys of `simple_types` -/
theorem merge_simpleTypes_tie : Consts.simpleTypesS = Merge.simpleTypes := by decide
/-- `Merge.isNoneLike` accepts exactly the tagged renderings of `none_types` (`none`, `s:None`, `s:` ++ `NoneStr`) -/
theorem merge_noneTypes_tie :
    Consts.noneTypesS.map (Option.map (fun s => "s:" ++ s)) = [none, some "s:None", some "s:```(None)```"]
    ∧ (Consts.noneTypesS.map (Option.map (fun s => "s:" ++ s))).all Merge.isNoneLike = true := by decide

end ConstsTie
