import CddVerif.Gen.Consts
import CddVerif.Model.Doc
import CddVerif.Model.DocGN
import CddVerif.Model.DocstringUtils
import CddVerif.Model.DocSplit
import CddVerif.Model.IfaceIR
import CddVerif.Model.IfaceParse
import CddVerif.Model.IfaceEmit
import CddVerif.Model.Cst
import CddVerif.Model.Merge
import CddVerif.Model.Adhoc
import CddVerif.Model.EmitIface
import CddVerif.Model.GenImports
import CddVerif.Model.Sql
import CddVerif.Model.JsonSchema
import CddVerif.Model.DocTransCst
/-! Part 9 of the constants tie (split from one file so that a constant that moves in the source breaks only the obligations of the properties whose model copies it). -/
namespace ConstsTie
open Gen

/-! ## 9. copies of `NoneStr` / `simple_types` / `kwlist` in the other models (C04, C05, C06, C07, C19) -/

/-- C04 `EmitIface.noneStr` -/
theorem emitiface_noneStr_tie : Consts.noneStr = EmitIface.noneStr := by decide
/-- C04 `EmitIface.simpleTypes` -/
theorem emitiface_simpleTypes_tie : Consts.simpleTypes = EmitIface.simpleTypes := by decide
/-- C04 `EmitIface.requiredTyps` = the `frozenset((…))` literal of `_resolve_arg` -/
theorem emitiface_requiredTyps_tie : Consts.resolveArgRequiredTyps = EmitIface.requiredTyps := by decide
/-- C05 `Sql.NoneStr` -/
theorem sql_NoneStr_tie : Consts.noneStr = Sql.NoneStr := by decide
/-- C06 `JsonSchema.noneStr` -/
theorem jsonschema_noneStr_tie : Consts.noneStr = JsonSchema.noneStr := by decide
/-- C07 `DocTransCst.noneStr` -/
theorem doctranscst_noneStr_tie : Consts.noneStr = DocTransCst.noneStr := by decide
/-- C19 `GenImports.noneStr` -/
theorem genimports_noneStr_tie : Consts.noneStr = GenImports.noneStr := by decide
/-- C19 `GenImports.pyKeywords` = `keyword.kwlist` -/
theorem genimports_pyKeywords_tie : Consts.kwlist = GenImports.pyKeywords := by decide

end ConstsTie
