import CddVerif.Proofs.SyncIface
import CddVerif.Properties.C12
/-!
# C12 on the interface model of C02 — the `Laws` of the sync model discharged for the modelled emitters / parsers

`Properties/C12.lean` proves the C12 theorems for black-box emitters obeying `Sync.Laws`.  Here the black boxes are
replaced by the model of the class / function / argparse emitters and parsers (`Model/Iface*.lean`) and the laws are
**proved** as far as property C02 gives them (`SyncIface.iface`, `Proofs/SyncIface.lean`):

| law of `Sync.Laws`      | status for `iface I`                                                                                   |
|-------------------------|--------------------------------------------------------------------------------------------------------|
| `refl`, `trans`         | not needed: the relation is "same view" stated directly in the conclusions                              |
| `emitName`, `emitKind`  | **proved for every interface** and every non-empty name (`SyncIface.nameKind`)                          |
| `roundTrip`             | **proved on the C02 domain** of the truth interface (`SyncIface.roundTrip`, from `C02.C02_class`,       |
|                         | `C02_function`, `C02_argparse`); false outside it (the negations of `Properties/C02.lean`)             |
| `emitCongr`             | **not available from C02** (it says: equal views are emitted identically — a fixpoint statement of the  |
|                         | kind of C08, and false for the emitters, which also print `doc`, `type` and un-normalised descriptions) |

`emitCongr` is used by one theorem only (`sync_idempotent`: the interface is re-read from the truth file before the
second run).  For a function / argparse truth the re-read interface is *identical* to the first one — the truth's
`FunctionDef` is never replaced — so no law is needed at all (`sync_idempotent_fn_truth`).  For a class truth the single
instance used remains a hypothesis, stated on the two interfaces at hand and decidable (`sync_idempotent_cls_truth`).

The hypotheses that remain are, besides those `Properties/C12.lean` already has about the *state* (the run completes,
the paths are top-level, what the files hold):

* `EnvOK I.env` — the one CPython fact C02 uses;
* `dom I k K ir0 = true` — **decidable**: the truth interface, as the emitter of kind `k` reads it under the name `K`,
  lies in `inD02`, the docstring layer of `I.env` round-trips on it (`docHyp`), and the adapter `I.rd` reads the emitted
  node back as `Top.reparse` models (`Top.toPy` has no inverse in the model: expressions are kept as text there; `I.rd`
  is that missing direction, a parameter; `SyncIface.readTop` is a structural one over `env.pyExpr`);
* `K ≠ ""` — with an empty name the emitters fall back to the interface's own name (`class_name or ir["name"]`).

`ir'.view = (C02.norm (fmt k) ir0).view` is the conclusion's "same interface": names in order, types, typed defaults,
normalised descriptions and the return entry, up to the statement's normalisation for the target's format (identity for
a class).
-/
namespace C12Iface
open PyAst Sync SyncIface Iface

/-- "the target holds the truth's interface": it parses, and shows the truth's view up to the format's normalisation -/
def ViewAs (k : Kind) (a b : SIR) : Prop :=
  ∃ ia ib, a = .ok ia ∧ b = .ok ib ∧ ia.view = (C02.norm (fmt k) ib).view

theorem viewAs_of_roundTrip {k : Kind} {a : SIR} {ir : IR} (h : ∃ ir', a = .ok ir' ∧ ir'.view = (C02.norm (fmt k) ir).view) :
    ViewAs k a (.ok ir) := by
  obtain ⟨ir', h1, h2⟩ := h
  exact ⟨ir', ir, h1, rfl, h2⟩

theorem holds_unfold {I : Inst} {k : Kind} {p : List String} {file : Option Module} {ir0 : IR}
    (h : Holds (iface I) (ViewAs k) k p file (.ok ir0)) :
    ∃ ir', targetIR (iface I) k p file = .ok (.ok ir') ∧ ir'.view = (C02.norm (fmt k) ir0).view := by
  obtain ⟨sir, h1, ia, ib, h2, h3, h4⟩ := h
  cases h3
  exact ⟨ia, by rw [h1, h2], h4⟩

/-! ## the laws, as theorems about the instance -/

/-- **`Laws.emitName`, `Laws.emitKind`**: every emission of the instance, for every interface (also one the model cannot
    emit), every function type and every non-empty name, is a definition of the wanted type under that name. -/
theorem laws_name_kind (I : Inst) (sir : SIR) (k : Kind) (ft : Option String) (n : String) (hn : n ≠ "") :
    ((iface I).emit k sir ft n).defName? = some n ∧ isWanted k ((iface I).emit k sir ft n) = true :=
  ⟨(nameKind I sir).emitName k ft n hn, (nameKind I sir).emitKind k ft n hn⟩

/-- **`Laws.roundTrip` on the C02 domain**: parsing the emission of `ir0` as a new target `K` of kind `k` (with whatever
    `function_type` the target then has) succeeds and returns the view of `ir0` up to the format's normalisation. -/
theorem laws_roundTrip (I : Inst) (hEnv : EnvOK I.env) (k : Kind) (K : String) (hK : K ≠ "") (ir0 : IR)
    (hD : dom I k K ir0 = true) (ft' : Option String) :
    ViewAs k ((iface I).parse k ((iface I).emit k (.ok ir0) none K) ft' K) (.ok ir0) :=
  viewAs_of_roundTrip (SyncIface.roundTrip I hEnv k K hK ir0 hD ft')

/-! ## C12, first clause -/

/-- **`C12_partial_class` for the modelled emitters / parsers** (clause "every listed class … target, when parsed, has the
    truth's interface"): in a completed run whose truth parses to `ir0`, a class file whose top-level target `K` is a
    `ClassDef` — any module around it — afterwards holds a class `K` that the class parser reads as `ir0`'s view.
    `Laws` is gone: what remains is the C02 domain of `ir0` for the class format. -/
theorem C12_class_iface (I : Inst) (hEnv : EnvOK I.env) (t : Kind) (tp : List String) (paths : Kind → List String) (s : Files)
    (ir0 : IR) (K : String) (hK : K ≠ "") (m : Module) (n : PyAst.Stmt)
    (h0 : targetIR (iface I) t tp (s.get t) = .ok (.ok ir0)) (hok : (sync (iface I) t tp paths s).err = none)
    (hp : paths .cls = [K]) (hm : s.cls = some m) (hf : findInAst [K] m = .ok (some (.stmt n))) (hn : isWanted .cls n = true)
    (hD : dom I .cls K ir0 = true) :
    ∃ ir', targetIR (iface I) .cls [K] ((sync (iface I) t tp paths s).files.get .cls) = .ok (.ok ir') ∧ ir'.view = ir0.view :=
  holds_unfold (partial_class_at (iface I) (ViewAs .cls) t tp paths s (.ok ir0) K m n (nameKind I _) hK
    (fun ft => laws_roundTrip I hEnv .cls K hK ir0 hD ft) h0 hok hp hm hf hn)

/-- **`C12_partial_created` for the modelled emitters / parsers** (clause "missing or empty target files are created with
    that interface", for an existing file that is empty or lacks the target; any kind, top-level path): the emission is
    appended, and the kind's parser reads it back as `ir0`'s view up to the format's normalisation. -/
theorem C12_created_iface (I : Inst) (hEnv : EnvOK I.env) (t : Kind) (tp : List String) (paths : Kind → List String) (s : Files)
    (ir0 : IR) (k : Kind) (K : String) (hK : K ≠ "") (m : Module)
    (h0 : targetIR (iface I) t tp (s.get t) = .ok (.ok ir0)) (hok : (sync (iface I) t tp paths s).err = none)
    (hp : paths k = [K]) (hm : s.get k = some m) (hf : findInAst [K] m = .ok none)
    (hD : dom I k K ir0 = true) :
    (sync (iface I) t tp paths s).files.get k = some (m ++ [(iface I).emit k (.ok ir0) none K]) ∧
    ∃ ir', targetIR (iface I) k [K] ((sync (iface I) t tp paths s).files.get k) = .ok (.ok ir') ∧
      ir'.view = (C02.norm (fmt k) ir0).view := by
  obtain ⟨h1, h2⟩ := partial_created_at (iface I) (ViewAs k) t tp paths s (.ok ir0) k K m (nameKind I _) hK
    (fun ft => laws_roundTrip I hEnv k K hK ir0 hD ft) h0 hok hp hm hf
  exact ⟨h1, holds_unfold h2⟩

/-- **`C12_partial_missing` for the modelled emitters / parsers** (a class / argparse file that does not exist): it is
    created from `emit_func(ir, emit_default_doc=False)` and then holds `ir0`'s view — `domNew` contains the proviso of
    `C12_partial_missing` in decidable form: the created definition is named after the TRUTH (class) or `set_cli_args`
    (argparse), and that must be the target's name (finding `C12-created-under-truth-name` otherwise). -/
theorem C12_missing_iface (I : Inst) (hEnv : EnvOK I.env) (k : Kind) (hk : k ≠ .function) (K : String) (ir0 : IR)
    (hD : domNew I k K ir0 = true) :
    conform (iface I) k [K] (.ok ir0) none = .ok (some [(iface I).emitNew k (.ok ir0)], true) ∧
    ∃ ir', targetIR (iface I) k [K] (some [(iface I).emitNew k (.ok ir0)]) = .ok (.ok ir') ∧
      ir'.view = (C02.norm (fmt k) ir0).view := by
  obtain ⟨h1, h2, h3⟩ := roundTripNew I hEnv k K ir0 hD
  obtain ⟨c1, c2⟩ := C12.C12_partial_missing (iface I) (ViewAs k) k hk K (.ok ir0) h1 h2 (fun ft => viewAs_of_roundTrip (h3 ft))
  exact ⟨c1, holds_unfold c2⟩

/-- **The truth's own interface is unchanged** (class truth, top-level path): after its own file was conformed to its
    own interface, the truth class still shows the same view (it was replaced by the re-emission of its interface). -/
theorem truth_unchanged_cls_iface (I : Inst) (hEnv : EnvOK I.env) (K : String) (hK : K ≠ "") (ir0 : IR) (m : Module)
    (f' : Option Module) (flag : Bool)
    (h0 : targetIR (iface I) .cls [K] (some m) = .ok (.ok ir0)) (hc : conform (iface I) .cls [K] (.ok ir0) (some m) = .ok (f', flag))
    (hD : dom I .cls K ir0 = true) :
    ∃ ir', targetIR (iface I) .cls [K] f' = .ok (.ok ir') ∧ ir'.view = ir0.view := by
  have h1 := truth_reread_at (iface I) .cls K hK (.ok ir0) (nameKind I _) m f' flag h0 hc
  obtain ⟨ir', e1, e2⟩ := SyncIface.roundTrip I hEnv .cls K hK ir0 hD none
  exact ⟨ir', by rw [h1]; simp only [rereadTruth]; rw [e1], e2⟩

/-- **The truth's own interface is unchanged** (function / argparse truth): the very same interface is read again — no
    hypothesis about the emitters, the parsers, or the domain. -/
theorem truth_unchanged_fn_iface (I : Inst) (t : Kind) (ht : t ≠ .cls) (K : String) (hK : K ≠ "") (sir0 : SIR) (m : Module)
    (f' : Option Module) (flag : Bool)
    (h0 : targetIR (iface I) t [K] (some m) = .ok sir0) (hc : conform (iface I) t [K] sir0 (some m) = .ok (f', flag)) :
    targetIR (iface I) t [K] f' = .ok sir0 := by
  have h1 := truth_reread_at (iface I) t K hK sir0 (nameKind I _) m f' flag h0 hc
  cases t <;> first | exact h1 | exact absurd rfl ht

/-! ## C12, idempotence -/

/-- **`sync_idempotent` for the modelled emitters / parsers, function / argparse truth — NO law left.**  For every
    state with three existing files and top-level, non-empty target names in which the first run completes and every
    function-kind file was either left as it was or had its missing target appended, the second run completes and
    changes no file.  Neither the C02 domain nor the docstring layer is needed: `emitName` / `emitKind` hold of the
    instance everywhere and the re-read truth interface is the first one. -/
theorem sync_idempotent_fn_truth (I : Inst) (t : Kind) (ht : t ≠ .cls) (paths : Kind → List String)
    (names : Kind → String) (hp : ∀ k, paths k = [names k]) (hne : ∀ k, names k ≠ "") (s : Files) (ms : Kind → Module)
    (hs : ∀ k, s.get k = some (ms k))
    (hok : (sync (iface I) t (paths t) paths s).err = none)
    (hc : ∀ k, k = .cls ∨ (sync (iface I) t (paths t) paths s).files.get k = s.get k ∨ findInAst (paths k) (ms k) = .ok none) :
    (sync (iface I) t (paths t) paths (sync (iface I) t (paths t) paths s).files).files = (sync (iface I) t (paths t) paths s).files ∧
    (sync (iface I) t (paths t) paths (sync (iface I) t (paths t) paths s).files).err = none := by
  obtain ⟨sir0, _, _, _, _, _, _, e0, _⟩ := sync_ok (iface I) t (paths t) paths s hok
  refine sync_idempotent_at (iface I) t paths names hp hne s ms hs sir0 e0 (nameKind I _) hok hc ?_
  intro k ft _
  cases t <;> first | rfl | exact absurd rfl ht

/-- **`sync_idempotent` for the modelled emitters / parsers, class truth.**  The one instance of `Laws.emitCongr` the
    proof uses stays a hypothesis (`hfix`, decidable: `SyncIface.sameEmissions`): the interface read back from the
    re-emitted truth class is emitted, for every kind under its target's name, exactly like the interface read first.
    C02 cannot give it (it speaks of views; the emitters also print what the view drops); a C08-style fixpoint theorem
    for `emit ∘ parse` on the class format would. -/
theorem sync_idempotent_cls_truth (I : Inst) (paths : Kind → List String)
    (names : Kind → String) (hp : ∀ k, paths k = [names k]) (hne : ∀ k, names k ≠ "") (s : Files) (ms : Kind → Module)
    (hs : ∀ k, s.get k = some (ms k)) (sir0 : SIR) (h0 : targetIR (iface I) .cls (paths .cls) (s.get .cls) = .ok sir0)
    (hok : (sync (iface I) .cls (paths .cls) paths s).err = none)
    (hc : ∀ k, k = .cls ∨ (sync (iface I) .cls (paths .cls) paths s).files.get k = s.get k ∨ findInAst (paths k) (ms k) = .ok none)
    (hfix : sameEmissions I names
      ((iface I).parse .cls ((iface I).emit .cls sir0 none (names .cls)) none (names .cls)) sir0 = true) :
    (sync (iface I) .cls (paths .cls) paths (sync (iface I) .cls (paths .cls) paths s).files).files
      = (sync (iface I) .cls (paths .cls) paths s).files ∧
    (sync (iface I) .cls (paths .cls) paths (sync (iface I) .cls (paths .cls) paths s).files).err = none :=
  sync_idempotent_at (iface I) .cls paths names hp hne s ms hs sir0 h0 (nameKind I _) hok hc
    (sameEmissions_eq I names _ _ hfix)

/-- the remaining hypothesis of `sync_idempotent_cls_truth` holds outright when the truth class already IS its own
    re-emission (the first run then reports it `unchanged`): the re-read interface is the first one -/
theorem hfix_of_canonical (I : Inst) (names : Kind → String) (sir0 : SIR) (n : PyAst.Stmt)
    (hparse : (iface I).parse .cls n none (names .cls) = sir0) (hcanon : (iface I).emit .cls sir0 none (names .cls) = n) :
    sameEmissions I names ((iface I).parse .cls ((iface I).emit .cls sir0 none (names .cls)) none (names .cls)) sir0 = true := by
  rw [hcanon, hparse]
  simp only [sameEmissions, List.all_eq_true]
  intro k _ ft _
  exact stmt_beq_refl _

/-! ## non-vacuity: a concrete environment, adapter, truth and target files

An ideal docstring layer (it answers, per reader, the entries with their descriptions — as in `C03Iface`), CPython's
expression parser as the finite table of the sources that occur, the structural adapter `readTop` over that table. -/

def irC : IR :=
  { name := some "F", doc := "Sum.", type := some "static",
    params := [("a", { doc := some "first one", typ := some "int", default := some (.val (.int 0)) }),
               ("b", { doc := some "second", typ := some "Optional[float]", default := some (.val (.float "0.0")) }),
               ("e", { doc := some "third", typ := some "str", default := some (.val (.str "")) })],
    returns := none }
def dC : IR :=
  { doc := "Sum.", params := [("a", { doc := some "first one" }), ("b", { doc := some "second" }), ("e", { doc := some "third" })] }
def dArg : IR :=
  { doc := "Set CLI arguments",
    params := [("argument_parser", { doc := some "argument parser", typ := some "ArgumentParser" })],
    returns := some { doc := some "argument_parser", typ := some "ArgumentParser" } }
def rawDoc : String := "doc"
def tbl : List (String × Expr) :=
  [("0", .const (.val (.int 0))), ("0.0", .const (.val (.float "0.0"))), ("''", .const (.val (.str ""))),
   ("'Sum.'", .const (.val (.str "Sum."))), ("5", .const (.val (.int 5)))]
def envT : Env :=
  { docEmit := fun _ _ => rawDoc,
    docParse := fun c _ => match c with | .cls => dC | .fn _ => dC | .argparse => dArg,
    extractDefault := fun _ s => (s, none), adhocTyp := fun _ _ _ => none,
    pyExpr := fun s => (tbl.find? (·.1 == s)).map (·.2) }

theorem envT_ok : EnvOK envT := C02.envOf_ok rawDoc dC tbl (by decide +kernel)

/-- the `add_argument` calls the adapter knows: those of the argparse emission of `irC` -/
def adds : List AddArg :=
  match emitArgparse envT {} irC with
  | .ok (.fn _ _ body _) => body.filterMap (fun s => match s with | .addArg a => some a | _ => none)
  | _ => []

def I : Inst := { env := envT, rd := readTop envT.pyExpr (paOf adds) }

def pathsT : Kind → List String
  | .cls => ["K"]
  | .function => ["f"]
  | .argparse => ["set_cli_args"]
def namesT : Kind → String
  | .cls => "K"
  | .function => "f"
  | .argparse => "set_cli_args"

/-- the truth: a function `f` holding `irC`'s interface (written as the function emitter writes it) -/
def fNode : PyAst.Stmt := (iface I).emit .function (.ok irC) none "f"
/-- the truth as `ground_truth` reads it -/
def ir0 : IR := { irC with name := some "f" }

/-- truth `f` after an unrelated statement; a class `K` with a DIFFERENT interface (`z: int = 5`) followed by an unrelated
    statement; an empty argparse file -/
def stateA : Files where
  function := some [.expr "0", fNode]
  cls := some [.cls "K" ["object"] [] [.ann "z" "int" (some "5")] [], .expr "1"]
  argparse := some []

def okIs (r : Except Err SIR) (ir : IR) : Bool :=
  match r with
  | .ok (.ok x) => x == ir
  | _ => false
theorem okIs_eq {r : Except Err SIR} {ir : IR} (h : okIs r ir = true) : r = .ok (.ok ir) := by
  unfold okIs at h
  split at h
  · simp only [beq_iff_eq] at h; rw [h]
  · cases h

def viewIs (r : Except Err SIR) (ir : IR) : Bool :=
  match r with
  | .ok (.ok x) => x.view == ir.view
  | _ => false

set_option maxRecDepth 8000 in
/-- the truth parses to `ir0`, and `ir0` satisfies the C02 hypotheses for all three kinds of target -/
theorem stateA_truth :
    targetIR (iface I) .function ["f"] stateA.function = .ok (.ok ir0) ∧
    dom I .cls "K" ir0 = true ∧ dom I .argparse "set_cli_args" ir0 = true ∧ dom I .function "f" ir0 = true :=
  ⟨okIs_eq (by decide +kernel), by decide +kernel, by decide +kernel, by decide +kernel⟩

set_option maxRecDepth 8000 in
theorem stateA_ok : (sync (iface I) .function ["f"] pathsT stateA).err = none := by decide +kernel

set_option maxRecDepth 8000 in
/-- **instance of `C12_class_iface`**: every hypothesis holds on `stateA` … -/
example : ∃ ir', targetIR (iface I) .cls ["K"] ((sync (iface I) .function ["f"] pathsT stateA).files.get .cls) = .ok (.ok ir') ∧
    ir'.view = ir0.view :=
  C12_class_iface I envT_ok .function ["f"] pathsT stateA ir0 "K" (by decide +kernel) _ _ stateA_truth.1 stateA_ok rfl rfl
    (by rw [findInAst_single, findTop_hit "K" _ _ (by decide +kernel)]) (by decide +kernel) stateA_truth.2.1

set_option maxRecDepth 8000 in
/-- … and the conclusion, evaluated: the run rewrote the class file (and only it and the empty argparse file), the unrelated
    statement is still there, and the class now shows the truth's view -/
example :
    (sync (iface I) .function ["f"] pathsT stateA).flags = [(.argparse, true), (.cls, true), (.function, false)] ∧
    fileIs (sync (iface I) .function ["f"] pathsT stateA).files.cls [(iface I).emit .cls (.ok ir0) none "K", .expr "1"] = true ∧
    viewIs (targetIR (iface I) .cls ["K"] (sync (iface I) .function ["f"] pathsT stateA).files.cls) irC = true :=
  ⟨by decide +kernel, by decide +kernel, by decide +kernel⟩

set_option maxRecDepth 8000 in
/-- **instance of `C12_created_iface`** (the empty argparse file): the hypotheses hold on `stateA` -/
example : (sync (iface I) .function ["f"] pathsT stateA).files.get .argparse = some ([] ++ [(iface I).emit .argparse (.ok ir0) none "set_cli_args"]) ∧
    ∃ ir', targetIR (iface I) .argparse ["set_cli_args"] ((sync (iface I) .function ["f"] pathsT stateA).files.get .argparse) = .ok (.ok ir') ∧
      ir'.view = (C02.norm .argparse ir0).view :=
  C12_created_iface I envT_ok .function ["f"] pathsT stateA ir0 .argparse "set_cli_args" (by decide +kernel) [] stateA_truth.1 stateA_ok rfl rfl
    (by rw [findInAst_single]; rfl) stateA_truth.2.2.1

set_option maxRecDepth 8000 in
/-- **instance of `sync_idempotent_fn_truth`**: the function file was left as it was, the argparse target was missing -/
example :
    (sync (iface I) .function ["f"] pathsT (sync (iface I) .function ["f"] pathsT stateA).files).files
      = (sync (iface I) .function ["f"] pathsT stateA).files ∧
    (sync (iface I) .function ["f"] pathsT (sync (iface I) .function ["f"] pathsT stateA).files).err = none :=
  sync_idempotent_fn_truth I .function (by decide +kernel) pathsT namesT (fun k => by cases k <;> rfl) (fun k => by cases k <;> decide +kernel) stateA
    (fun k => match k with | .argparse => [] | .cls => [.cls "K" ["object"] [] [.ann "z" "int" (some "5")] [], .expr "1"] | .function => [.expr "0", fNode])
    (fun k => by cases k <;> rfl) stateA_ok
    (fun k => by
      cases k
      · exact Or.inr (Or.inr (by show findInAst ["set_cli_args"] [] = .ok none; rw [findInAst_single]; rfl))
      · exact Or.inl rfl
      · refine Or.inr (Or.inl ?_)
        show (sync (iface I) .function ["f"] pathsT stateA).files.get .function = _
        have h : (sync (iface I) .function ["f"] pathsT stateA).flags = [(.argparse, true), (.cls, true), (.function, false)] := by decide +kernel
        obtain ⟨_, _, _, _, _, ff, bf, _, _, _, e3, e4, e5⟩ := sync_ok (iface I) .function ["f"] pathsT stateA stateA_ok
        rw [e5] at h
        simp only [List.cons.injEq, Prod.mk.injEq, and_true, true_and] at h
        rw [h.2.2] at e3
        rw [e4]
        exact conform_flag_false _ _ _ _ _ _ e3)

/-- a class truth: the class `K` written as the class emitter writes `irC` under that name, an empty function file, a
    missing argparse file -/
def kNode : PyAst.Stmt := (iface I).emit .cls (.ok irC) none "K"
def irK : IR := { irC with name := some "K" }
def stateB : Files where
  cls := some [kNode, .expr "1"]
  function := some []
  argparse := some []

set_option maxRecDepth 8000 in
theorem stateB_truth : targetIR (iface I) .cls ["K"] stateB.cls = .ok (.ok irK) ∧ dom I .function "f" irK = true :=
  ⟨okIs_eq (by decide +kernel), by decide +kernel⟩

set_option maxRecDepth 8000 in
theorem stateB_ok : (sync (iface I) .cls ["K"] pathsT stateB).err = none := by decide +kernel

set_option maxRecDepth 8000 in
/-- **instance of `sync_idempotent_cls_truth`**: the fixpoint hypothesis `hfix` holds on `stateB` (evaluated) -/
example :
    (sync (iface I) .cls ["K"] pathsT (sync (iface I) .cls ["K"] pathsT stateB).files).files = (sync (iface I) .cls ["K"] pathsT stateB).files ∧
    (sync (iface I) .cls ["K"] pathsT (sync (iface I) .cls ["K"] pathsT stateB).files).err = none :=
  sync_idempotent_cls_truth I pathsT namesT (fun k => by cases k <;> rfl) (fun k => by cases k <;> decide +kernel) stateB
    (fun k => match k with | .argparse => [] | .cls => [kNode, .expr "1"] | .function => [])
    (fun k => by cases k <;> rfl) (.ok irK) stateB_truth.1 stateB_ok
    (fun k => by
      cases k
      · exact Or.inr (Or.inr (by show findInAst ["set_cli_args"] [] = .ok none; rw [findInAst_single]; rfl))
      · exact Or.inl rfl
      · exact Or.inr (Or.inr (by show findInAst ["f"] [] = .ok none; rw [findInAst_single]; rfl)))
    (by decide +kernel)

set_option maxRecDepth 8000 in
/-- **instance of `C12_missing_iface`**: a class file that does not exist, target named like the truth -/
example : domNew I .cls "K" irK = true ∧ domNew I .argparse "set_cli_args" irK = true := by decide +kernel

/-! ### the recorded defect, on the instance

`C12.function_target_never_rewritten` is generic in the emitters, so it holds of `iface I` as it stands; here it is with
the modelled parser reading the target back: the function target keeps ITS interface. -/

/-- a function `f` whose first parameter has the default `5` where the truth has `0` -/
def gNode : PyAst.Stmt :=
  (iface I).emit .function
    (.ok { irC with params := [("a", { doc := some "first one", typ := some "int", default := some (.val (.int 5)) })] }) none "f"

set_option maxRecDepth 8000 in
/-- **negation of the first clause for a function target, with the modelled emitters / parsers**: `sync --truth class`
    completes, reports the function file `unchanged`, and the function parser still reads the old interface from `f` -/
theorem function_target_not_conformed_iface :
    (sync (iface I) .cls ["K"] pathsT { stateB with function := some [gNode] }).err = none ∧
    (sync (iface I) .cls ["K"] pathsT { stateB with function := some [gNode] }).flags
      = [(.argparse, true), (.cls, false), (.function, false)] ∧
    (match targetIR (iface I) .function ["f"] (sync (iface I) .cls ["K"] pathsT { stateB with function := some [gNode] }).files.function with
     | .ok (.ok x) => x.view != (C02.norm .function irK).view
     | _ => false) = true :=
  ⟨by decide +kernel, by decide +kernel, by decide +kernel⟩

/-- `hfix` is a genuine hypothesis: an interface whose description ends in a full stop has the same *view* as the one
    without it (the view normalises descriptions), but the two are emitted differently whenever the docstring layer
    prints what it is given — so `Laws.emitCongr` for the view relation is false of the instance, not merely unproved. -/
def envEcho : Env :=
  { envT with docEmit := fun _ ir => String.join (ir.params.map (fun kv => kv.2.doc.getD "")) }

theorem emitCongr_fails_for_views :
    ∃ (a b : IR), a.view = b.view ∧
      PyAst.Stmt.beq ((iface { env := envEcho, rd := fun _ => none }).emit .cls (.ok a) none "K")
                     ((iface { env := envEcho, rd := fun _ => none }).emit .cls (.ok b) none "K") = false :=
  ⟨{ irC with params := [("a", { doc := some "first one.", typ := some "int", default := some (.val (.int 0)) })] },
   { irC with params := [("a", { doc := some "first one", typ := some "int", default := some (.val (.int 0)) })] },
   by decide +kernel, by decide +kernel⟩

end C12Iface
