import CddVerif.Proofs.DocNPRoundTripDomain
import CddVerif.Properties.C01Google
/-!
# C01 — whole-docstring round trip, NumPy style, on the model

For every interface in the explicit decidable domain `C01Numpy.InDomainN` (`Proofs/DocNPRoundTripDomain.lean`), with
**types emitted** (`emit_types = True`) and any `word_wrap` / `emit_default_doc`: whatever
`Doc.emit ir .numpydoc true ww edd` returns, `DocGN.parseGN .numpydoc` parses into **exactly** `expIRN ir true edd`
(`numpy_roundtrip_full`).  `expIRN` is the Google prediction `DocGNRT.expIRG` (Properties/C01Google.lean): header, every
parameter in order with the emitted description, the carried default (type: the declared one), and — the
`require_default` latch, stated rather than excluded — for a parameter without carried default after one with a carried
default the zero of its simple type or `None` (then `Optional[T]`).  With word wrap the model's `fill` abstains on lines
of more than 100 characters; the hypothesis `emit … = .ok s` covers that.

## Domain (`inDomainNB`)

ASCII header as for Google but without the word `Parameters` (instead of `Args:`); no return entry; at least one
parameter; names and entries Google-good (`C01Google.gNameB`, `gEntryB`: integer / boolean defaults, no prose-triggered
type, …); **every parameter declares a type**, without blank at either end; for both settings of `emit_default_doc` the
two emitted lines `name : type` / `    description` are ASCII without line break, the first at column 0 and not ending
in `:`, the second longer than one character and not starting with `Returns`; distinct names.

**Essential** (witnesses below, evaluated on the model, replayed on the real code): types emitted (`no_types_names_lost`:
with `emit_types=False` the `name : type` lines are dropped and the descriptions come back as parameter names); every
parameter typed (`untyped_needed`: the description joins the previous entry); no return entry
(`return_without_doc_raises`: `IndexError`); description not starting with `Returns` (`returns_word_needed`: `KeyError`,
through the scanner's copy of the last line into `scanned_afterward`); no blank in front of a type (`type_blank_needed`);
the latch is part of the statement (`latch_gives_default_numpy`).
**Convenience**: the word `Parameters` in the header (only the full token `Parameters\n----------` matters); the clauses
inherited from the Google entry check that do not concern NumPy (` or ` in types, `{` descriptions, `(` in names).
-/
namespace C01Numpy
open Py Doc DocRT DocGN DocGNRT DocNPRT C01Google

/-- **NumPy round trip, full strength** (types emitted) -/
theorem numpy_roundtrip_full (ir : IR) (ww edd : Bool) (h : InDomainN ir) (s : Str)
    (he : emit ir .numpydoc true ww edd = .ok s) : parseGN .numpydoc s edd = .ok (expIRN ir true edd) :=
  parse_emitted_numpy ir ww edd s (inDomainN_sound ir h) he

/-- **names and order** -/
theorem numpy_roundtrip_names (ir : IR) (ww edd : Bool) (h : InDomainN ir) (s : Str)
    (he : emit ir .numpydoc true ww edd = .ok s) :
    ∃ ir', parseGN .numpydoc s edd = .ok ir' ∧ ir'.params.map (·.1) = ir.params.map (·.1) :=
  ⟨_, numpy_roundtrip_full ir ww edd h s he, expParamsG_names edd false ir.params⟩

/-- **descriptions** -/
theorem numpy_roundtrip_docs (ir : IR) (ww edd : Bool) (h : InDomainN ir) (s : Str)
    (he : emit ir .numpydoc true ww edd = .ok s) :
    ∃ ir', parseGN .numpydoc s edd = .ok ir'
      ∧ ir'.params.map (fun np => np.2.doc) = ir.params.map (fun np => some (docText np.2 edd)) :=
  ⟨_, numpy_roundtrip_full ir ww edd h s he, expParamsG_docs edd false ir.params⟩

/-- **header and return entry** -/
theorem numpy_roundtrip_header (ir : IR) (ww edd : Bool) (h : InDomainN ir) (s : Str)
    (he : emit ir .numpydoc true ww edd = .ok s) :
    ∃ ir', parseGN .numpydoc s edd = .ok ir' ∧ ir'.doc = ir.doc ∧ ir'.returns = Option.none :=
  ⟨_, numpy_roundtrip_full ir ww edd h s he, rfl, rfl⟩

/-- **types and defaults**, with the latch: exactly `expParamsG` -/
theorem numpy_roundtrip_types_defaults (ir : IR) (ww edd : Bool) (h : InDomainN ir) (s : Str)
    (he : emit ir .numpydoc true ww edd = .ok s) :
    ∃ ir', parseGN .numpydoc s edd = .ok ir' ∧ ir'.params = expParamsG edd false ir.params :=
  ⟨_, numpy_roundtrip_full ir ww edd h s he, rfl⟩

/-- **the identity** when no default is carried -/
theorem numpy_roundtrip_plain (ir : IR) (ww edd : Bool) (h : InDomainN ir) (s : Str)
    (he : emit ir .numpydoc true ww edd = .ok s) (hno : edd = false ∨ ∀ np ∈ ir.params, np.2.default = Option.none) :
    parseGN .numpydoc s edd
      = .ok ⟨ir.doc, ir.params.map (fun np => (np.1, { typ := np.2.typ, doc := np.2.doc, default := Option.none })), Option.none⟩ := by
  rw [numpy_roundtrip_full ir ww edd h s he]
  have hd : ∀ np ∈ ir.params, dfltOf np.2 edd = Option.none := by
    intro np hnp
    unfold dfltOf
    rcases hno with rfl | hno
    · rfl
    · rw [hno np hnp]; cases edd <;> rfl
  unfold expIRN expIRG
  rw [expParamsG_plain edd ir.params hd]
  congr 2
  apply List.map_congr_left
  intro np hnp
  have g := ((inDomainN_sound ir h).entries np hnp).base
  cases hdoc : np.2.doc with
  | none => exact absurd hdoc g.docSome
  | some d =>
    have : docText np.2 edd = d := by
      unfold docText; rw [hdoc]; simp only []
      have := hd np hnp; unfold dfltOf at this; rw [this]
    rw [this]

/-! ### non-vacuity -/

/-- header; typed+described; typed with an integer default; typed with a boolean default; two typed parameters without
    default (`Foo`, `int`) that the latch reaches -/
def exN : IR :=
  { doc := g!"Train it.",
    params := [
      (g!"lr", { typ := some g!"float", doc := some g!"learning rate: step size" }),
      (g!"epochs", { typ := some g!"int", doc := some g!"how long", default := some (.int 10) }),
      (g!"verbose", { typ := some g!"bool", doc := some g!"print progress,", default := some (.bool true) }),
      (g!"model", { typ := some g!"Foo", doc := some g!"the model" }),
      (g!"seed", { typ := some g!"int", doc := some g!"the seed" })] }

example : InDomainN exN := by decide +kernel

set_option maxRecDepth 100000 in
example : emit exN .numpydoc true true true = .ok g!"Train it.\n\nParameters\n----------\nlr : float\n    learning rate: step size\nepochs : int\n    how long. Defaults to 10\nverbose : bool\n    print progress, Defaults to True\nmodel : Foo\n    the model\nseed : int\n    the seed\n" := by
  decide +kernel

example : ([true, false].all fun ww => [true, false].all fun edd =>
    match emit exN .numpydoc true ww edd with | .ok _ => true | .outside _ => false) = true := by decide +kernel

/-- the latch on the example: `model : Foo` → `Optional[Foo] = None`, `seed : int` → `= 0` -/
theorem latch_gives_default_numpy :
    (expIRN exN true true).params.map (fun np => (np.1, np.2.typ, np.2.default))
      = [(g!"lr", some g!"float", Option.none),
         (g!"epochs", some g!"int", some (.base (.int 10))),
         (g!"verbose", some g!"bool", some (.base (.bool true))),
         (g!"model", some g!"Optional[Foo]", some (.base .none)),
         (g!"seed", some g!"int", some (.base (.int 0)))] := by decide +kernel

/-! ### why the clauses are there (model witnesses) -/

def roundTripN (ir : IR) (et edd : Bool) : Option (R GIR) :=
  match emit ir .numpydoc et true edd with
  | .ok s => some (parseGN .numpydoc s edd)
  | .outside _ => Option.none

/-- **emitted without types** the `name : type` lines are dropped: the descriptions come back as parameter names -/
theorem no_types_names_lost :
    roundTripN { params := [(g!"a", { typ := some g!"int", doc := some g!"the a" }), (g!"b", { typ := some g!"str", doc := some g!"the b" })] } false true
      = some (.ok ⟨[], [(g!"the a", {}), (g!"the b", {})], Option.none⟩) := by decide +kernel

/-- an untyped parameter has no `name : type` line either: its description joins the previous entry -/
theorem untyped_needed :
    roundTripN { params := [(g!"a", { typ := some g!"int", doc := some g!"x" }), (g!"b", { doc := some g!"bee" })] } true true
      = some (.ok ⟨[], [(g!"a", { typ := some g!"int", doc := some g!"x bee" })], Option.none⟩) := by decide +kernel

/-- a return entry without description: `IndexError` -/
theorem return_without_doc_raises :
    roundTripN { params := [(g!"a", { typ := some g!"int", doc := some g!"x" })], returns := some { typ := some g!"Optional[int]" } } true true
      = some (.raises "IndexError") := by decide +kernel

/-- a (last) description starting with `Returns`: `KeyError` -/
theorem returns_word_needed :
    roundTripN { params := [(g!"a", { typ := some g!"int", doc := some g!"Returns the a" })] } true true
      = some (.raises "KeyError") := by decide +kernel

/-- a blank in front of a type is stripped -/
theorem type_blank_needed :
    roundTripN { params := [(g!"a", { typ := some g!" int", doc := some g!"x" })] } true true
      = some (.ok ⟨[], [(g!"a", { typ := some g!"int", doc := some g!"x" })], Option.none⟩) := by decide +kernel

end C01Numpy
