import CddVerif.Proofs.GenModule
/-!
# C19 — `gen` writes a valid module that exports exactly what it generated

Property theorems only (lemmas: `CddVerif/Proofs/GenModule.lean`; model: `CddVerif/Model/GenModule.lean`,
`CddVerif/Model/GenImports.lean`).  The per-entry parsers / emitters are a parameter `W : World`; every theorem is for
every `W`, every template, every input mapping, every flag combination unless it says "witness".

What holds of the unchanged code, in full generality: `__all__` is exactly `names.map tpl` (`all_eq_names`,
`all_rendered`, `all_nodup`); for the class / argparse emitters the defined names are the validated template names and
coincide with `__all__` when the template yields identifiers (`defined_eq_all`, `defined_once`); the assembled module is
a permutation of its parts with the docstring, then `__future__` imports, then the other imports first
(`module_shape`); an existing output file is never written to (`guard`, `never_overwrites`); whenever import
inference does not crash, every resolvable name used by a generated symbol is imported (`imports_cover`,
`imports_cover_module`).

What does **not** hold (negations, each re-observed on the real CLI and listed in `known_findings.d/C19.txt`):
`--emit function`, `--emit pydantic`, `--parse argparse`, `--parse infer` on argparse functions / JSON files always
fail; inference crashes when a symbol needs no import or when it produces two import statements; the SQLAlchemy
emitters' symbols are not called what `__all__` says; `__all__` is not passed through `ensure_valid_identifier`;
`ensure_valid_identifier` can return a non-identifier.
-/
namespace C19
open Py PyAst GenImports GenModule

/-- the full statement of the property on the model (for orientation; its conjuncts are proved or refuted below):
    a successful run yields a module whose generated symbols are named by the template, one per entry, `__all__`
    lists exactly those names, and every resolvable name is imported under inference; and `gen` succeeds on every
    configuration of the quantifier.  The last part is false (`emit_function_always_fails`, …), and so is
    "`__all__` = defined names" outside `defined_eq_all`'s hypotheses. -/
def C19_full : Prop :=
  ∀ (W : World) (cfg : Cfg) (input : InputFile),
    (∃ o, gen W cfg input = .ok o) ∧
    ∀ es ss as, fileToInputMapping cfg.parse input = .ok es → genEntries W cfg es = .ok (ss, as) →
      ss.map stmtSymbol? = as.map (fun a => some (String.ofList a))

/-! ## `__all__` -/

/-- **`__all__` accumulation:** after a successful `get_functions_and_classes`, `global__all__` is the template applied to
    the keys of the input mapping, in order; one statement was emitted per entry; the template is well-formed as soon
    as there is an entry. -/
theorem all_eq_names (W : World) (cfg : Cfg) (es : List Entry) (ss : List Stmt) (as : List Str)
    (h : genEntries W cfg es = .ok (ss, as)) :
    (∀ t, parseTpl cfg.tpl = .ok t → as = es.map (fun e => t.apply e.name)) ∧
    ss.length = es.length ∧ (es ≠ [] → ∃ t, parseTpl cfg.tpl = .ok t) := by
  induction es generalizing ss as with
  | nil =>
    simp only [genEntries, Except.ok.injEq, Prod.mk.injEq] at h
    obtain ⟨rfl, rfl⟩ := h
    simp
  | cons e rest ih =>
    unfold genEntries at h
    split at h
    · cases h
    · rename_i s a he
      split at h
      · cases h
      · rename_i ss' as' hr
        simp only [Except.ok.injEq, Prod.mk.injEq] at h
        obtain ⟨rfl, rfl⟩ := h
        obtain ⟨i1, i2, _⟩ := ih ss' as' hr
        -- the first step of `genEntry` is `fmt cfg.tpl e.name`
        have hf : fmt cfg.tpl e.name = .ok a := ((genEntry_ok_iff W cfg e s a).mp he).1
        have ht : ∃ t, parseTpl cfg.tpl = .ok t := by
          unfold fmt at hf
          cases hp : parseTpl cfg.tpl with
          | error err => simp [hp, Except.map] at hf
          | ok t => exact ⟨t, rfl⟩
        refine ⟨?_, by simp [i2], fun _ => ht⟩
        intro t htp
        rw [fmt_eq _ _ t htp] at hf
        simp only [Except.ok.injEq] at hf
        simp [List.map, ← hf, i1 t htp]

/-- **Final emission of `__all__`:** the module `gen_module` returns ends with `__all__ = [...]` whose elements are the
    accumulated names passed through the `to_code / strip` round trip, which is the identity on every name without
    quote, backslash or unprintable character — in particular on identifiers. -/
theorem all_rendered (cfg : Cfg) (syms : List Stmt) (all : List Str) (body : List Stmt)
    (h : assemble cfg syms all = .ok body) :
    body.getLast? = some (allStmt (all.map allEntry)) ∧ (∀ n, plain n = true → allEntry n = n) := by
  refine ⟨?_, allEntry_plain⟩
  obtain ⟨inf, hdr, pre, _, _, _, _, hb⟩ := assemble_ok cfg syms all body h
  rw [hb]
  exact reorder_getLast _ _ rfl (fun s hs => by cases hs)

/-- **No duplicates in `__all__`:** distinct keys and a template with at least one `{name}` give distinct names. -/
theorem all_nodup (t : Tpl) (hh : 0 < t.holes) (es : List Entry) (hnd : (es.map (·.name)).Nodup) :
    (es.map (fun e => t.apply e.name)).Nodup := by
  have : es.map (fun e => t.apply e.name) = (es.map (·.name)).map t.apply := by simp
  rw [this]
  exact List.Pairwise.map _ (fun a b hab h => hab (Tpl.apply_injective t hh a b h)) hnd

/-- non-vacuity of `all_nodup`'s hypothesis: `{name}Config` has one hole -/
example : ∃ t, parseTpl ['{','n','a','m','e','}','C','o','n','f','i','g'] = .ok t ∧ 0 < t.holes := ⟨_, rfl, by decide⟩

/-! ## defined symbols (class / argparse emitters) -/

/-- the emitters' naming contract (`class_name or ir["name"]`, `function_name or ir["name"]`, … — `GenModule.symbolName`),
    as a hypothesis on the parameter `W`; the check ties it to the real emitters on every run -/
def NamingContract (W : World) (emit : EmitKind) : Prop :=
  ∀ kw e s pn irn n, W.emit emit kw e = .ok s → W.parse pn e = .ok irn → symbolName emit kw irn = .ok n →
    stmtSymbol? s = some (String.ofList n)

/-- **Defined names:** with the class or argparse emitter, the generated statements bind
    `ensure_valid_identifier(tpl(name))`, entry by entry; when the template yields ASCII identifiers that is `tpl(name)`
    itself, i.e. the module defines exactly what `__all__` lists, in the same order. -/
theorem defined_eq_all (W : World) (cfg : Cfg) (hk : cfg.emit = .class_ ∨ cfg.emit = .argparse)
    (hc : NamingContract W cfg.emit) (es : List Entry) (hni : ∀ e ∈ es, e.name ≠ inferName)
    (t : Tpl) (ht : parseTpl cfg.tpl = .ok t) (ss : List Stmt) (as : List Str)
    (h : genEntries W cfg es = .ok (ss, as)) :
    ss.map stmtSymbol? = es.map (fun e => some (String.ofList (ensureValid (t.apply e.name)))) ∧
    ((∀ e ∈ es, asciiIdent (t.apply e.name) = true) → ss.map stmtSymbol? = as.map (fun a => some (String.ofList a))) := by
  have key : ss.map stmtSymbol? = es.map (fun e => some (String.ofList (ensureValid (t.apply e.name)))) := by
    induction es generalizing ss as with
    | nil =>
      simp only [genEntries, Except.ok.injEq, Prod.mk.injEq] at h
      obtain ⟨rfl, rfl⟩ := h; rfl
    | cons e rest ih =>
      unfold genEntries at h
      split at h
      · cases h
      · rename_i s a he
        split at h
        · cases h
        · rename_i ss' as' hr
          simp only [Except.ok.injEq, Prod.mk.injEq] at h
          obtain ⟨rfl, rfl⟩ := h
          have ih' := ih (fun e he => hni e (List.mem_cons_of_mem _ he)) ss' as' hr
          have hne : (e.name == inferName) = false := by
            have := hni e (by simp)
            simpa using this
          obtain ⟨hfm, pn, irn, kw, hpf, hpa, hkw, hcc, hem⟩ := (genEntry_ok_iff W cfg e s a).mp he
          -- the keyword arguments carry the validated template name
          have hkn : kw.name = some (ensureValid (t.apply e.name)) := by
            rw [getEmitKwarg_eq] at hkw
            simp only [hne, Bool.false_eq_true, if_false, fmt_eq _ _ t ht, Except.map] at hkw
            cases hkt : kwargTable cfg.emit with
            | none => simp [hkt] at hkw
            | some ks => simp only [hkt, Except.ok.injEq] at hkw; rw [← hkw]
          have hsym : symbolName cfg.emit kw irn = .ok (ensureValid (t.apply e.name)) := by
            have hnn : (ensureValid (t.apply e.name)).isEmpty = false := by
              cases hv : ensureValid (t.apply e.name) with
              | nil => exact absurd hv (ensureValid_ne_nil _)
              | cons _ _ => rfl
            rcases hk with hk | hk <;> simp [symbolName, hk, hkn, hnn]
          have := hc kw e s pn irn _ hem hpa hsym
          simp [List.map, this, ih']
  refine ⟨key, fun hid => ?_⟩
  rw [key, (all_eq_names W cfg es ss as h).1 t ht]
  simp only [List.map_map]
  apply List.map_congr_left
  intro e he
  simp [Function.comp, ensureValid_id _ (hid e he)]

/-- **Each name of `__all__` is defined exactly once** (class / argparse emitters, identifier-producing template with a
    `{name}` hole, distinct keys). -/
theorem defined_once (W : World) (cfg : Cfg) (hk : cfg.emit = .class_ ∨ cfg.emit = .argparse)
    (hc : NamingContract W cfg.emit) (es : List Entry) (hni : ∀ e ∈ es, e.name ≠ inferName)
    (t : Tpl) (ht : parseTpl cfg.tpl = .ok t) (hh : 0 < t.holes) (hnd : (es.map (·.name)).Nodup)
    (hid : ∀ e ∈ es, asciiIdent (t.apply e.name) = true)
    (ss : List Stmt) (as : List Str) (h : genEntries W cfg es = .ok (ss, as)) :
    ∀ a ∈ as, (ss.map stmtSymbol?).count (some (String.ofList a)) = 1 := by
  intro a ha
  have hd := (defined_eq_all W cfg hk hc es hni t ht ss as h).2 hid
  have has := (all_eq_names W cfg es ss as h).1 t ht
  have hnd' : as.Nodup := by rw [has]; exact all_nodup t hh es hnd
  have hnd2 : (as.map (fun a => some (String.ofList a))).Nodup :=
    List.Pairwise.map _ (fun x y hxy e => hxy (String.ofList_injective (Option.some.inj e))) hnd'
  rw [hd, hnd2.count]
  simp only [List.mem_map, ite_eq_left_iff, not_exists, not_and]
  intro hno
  exact absurd rfl (hno a ha)

/-- non-vacuity: a two-class run of the class emitter with a world that honours the contract -/
example :
    let W : World := { parse := fun _ e => .ok e.name,
                       emit := fun _ kw _ => .ok (.cls (String.ofList (kw.name.getD [])) [] [] [] []) }
    let cfg : Cfg := { tpl := ['{','n','a','m','e','}','C'], parse := .class_, emit := .class_ }
    (genEntries W cfg [⟨['A'], .cls []⟩, ⟨['B'], .cls []⟩]).toOption.map (·.2) = some [['A','C'], ['B','C']] := by
  decide

/-! ## module assembly -/

/-- **Assembly order:** the module `gen_module` returns is a permutation of `prepend ++ imports ++ symbols ++ [__all__]`
    (nothing lost, nothing duplicated) laid out as: the docstring (if the first statement is a non-blank one), then the
    `__future__` imports, then the other imports, then everything else — each block in its original order. -/
theorem module_shape (body : List Stmt) :
    (reorder body).Perm body ∧
    ∃ doc fut imp rest, reorder body = doc ++ (fut ++ imp) ++ rest ∧ doc.length ≤ 1 ∧
      (∀ s ∈ fut, isImport s = true ∧ isFuture s = true) ∧ (∀ s ∈ imp, isImport s = true ∧ isFuture s = false) ∧
      (∀ s ∈ rest, isImport s = false) ∧
      fut = (body.filter isImport).filter isFuture ∧ imp = (body.filter isImport).filter (fun s => !isFuture s) := by
  refine ⟨reorder_perm body, _, _, _, _, rfl, ?_, ?_, ?_, ?_, rfl, rfl⟩
  · split <;> simp [List.length_take]; omega
  · intro s hs; simp only [List.mem_filter] at hs; exact ⟨hs.1.2, hs.2⟩
  · intro s hs; simp only [List.mem_filter] at hs; exact ⟨hs.1.2, by simpa using hs.2⟩
  · intro s hs; simp only [List.mem_filter] at hs; simpa using hs.2

/-! ## the destructive-operation guard -/

/-- **Guard:** when `isfile` answers yes for the `--output-filename` argument — the raw string — and `phase = 0`, the whole
    effect trace of `main` is that `isfile` query followed by `raise IOError`: for every file system, every result `gen`
    would have had, i.e. for every argument vector. -/
theorem guard (fs : FS) (output : String) (run : Except Err Output) (hex : fs.isfile output = true) :
    mainGen fs output 0 run = [.isfile output, .raise .ioError] := by
  simp [mainGen, guardPath, hex]

/-- **The guard tests exactly what is written:** every path that `main` opens for appending or writes to is the raw
    `--output-filename` string itself, that very string was handed to `isfile` earlier in the same trace, and (for
    `phase = 0`) `isfile` answered no for it.  The guard and the writer use the *same path expression*: a normalisation
    (`expanduser`, `realpath`, …) on one side only falsifies this theorem. -/
theorem guard_tests_what_is_written (fs : FS) (output : String) (phase : Int) (run : Except Err Output) :
    guardPath output = output ∧ writePath output = output ∧
    ∀ e ∈ mainGen fs output phase run, ∀ p, e.writes? = some p →
      p = output ∧ Eff.isfile p ∈ mainGen fs output phase run ∧ (phase = 0 → fs.isfile p = false) := by
  refine ⟨rfl, rfl, ?_⟩
  intro e he p hp
  unfold mainGen at he ⊢
  simp only [guardPath, writePath] at he ⊢
  by_cases hg : (fs.isfile output && phase == 0) = true
  · simp only [hg, if_true] at he
    simp at he; rcases he with rfl | rfl <;> cases hp
  · have hno : phase = 0 → fs.isfile output = false := by
      intro h0; subst h0
      cases hf : fs.isfile output with
      | false => rfl
      | true => simp [hf] at hg
    simp only [hg] at he ⊢
    cases run with
    | error err => simp at he; rcases he with rfl | rfl <;> cases hp
    | ok o =>
      simp only at he ⊢
      cases ho : fs.openAppend output with
      | error err =>
        simp [ho] at he
        rcases he with rfl | rfl | rfl
        · cases hp
        · simp only [Eff.writes?, Option.some.injEq] at hp; subst hp; exact ⟨rfl, by simp, hno⟩
        · cases hp
      | ok u =>
        by_cases hd : o.dumpFails = true
        · simp [ho, hd] at he
          rcases he with rfl | rfl | rfl | rfl
          · cases hp
          · simp only [Eff.writes?, Option.some.injEq] at hp; subst hp; exact ⟨rfl, by simp, hno⟩
          · simp only [Eff.writes?, Option.some.injEq] at hp; subst hp; exact ⟨rfl, by simp, hno⟩
          · cases hp
        · simp [ho, hd] at he
          rcases he with rfl | rfl | rfl
          · cases hp
          · simp only [Eff.writes?, Option.some.injEq] at hp; subst hp; exact ⟨rfl, by simp, hno⟩
          · simp only [Eff.writes?, Option.some.injEq] at hp; subst hp; exact ⟨rfl, by simp, hno⟩

/-- **Never overwrites:** when the argument names an existing file (`phase = 0`) no effect of the trace opens or writes
    anything; whatever the arguments, a write happens at most once, into the argument path, after `gen` computed its
    result and `open(…, "a")` succeeded. -/
theorem never_overwrites (fs : FS) (output : String) (phase : Int) (run : Except Err Output) :
    (fs.isfile output = true → phase = 0 → ∀ e ∈ mainGen fs output phase run, e.isWrite = false) ∧
    ((mainGen fs output phase run).filter Eff.isFinalWrite).length ≤ 1 ∧
    (Eff.write output ∈ mainGen fs output phase run → (∃ o, run = .ok o) ∧ fs.openAppend output = .ok ()) := by
  refine ⟨?_, ?_, ?_⟩
  · intro hex hp e he
    subst hp
    rw [guard fs output run hex] at he
    simp at he
    rcases he with rfl | rfl <;> rfl
  · unfold mainGen; simp only [guardPath, writePath]
    by_cases hg : (fs.isfile output && phase == 0) = true
    · simp [hg, List.filter, Eff.isFinalWrite]
    · simp only [hg]
      cases run with
      | error err => simp [List.filter, Eff.isFinalWrite]
      | ok o => cases fs.openAppend output <;> by_cases hd : o.dumpFails = true <;> simp [List.filter, Eff.isFinalWrite, hd]
  · intro he
    unfold mainGen at he; simp only [guardPath, writePath] at he
    by_cases hg : (fs.isfile output && phase == 0) = true
    · simp [hg] at he
    · simp only [hg] at he
      cases run with
      | error err => simp at he
      | ok o =>
        cases ho : fs.openAppend output with
        | error err => simp [ho] at he
        | ok u => exact ⟨⟨o, rfl⟩, rfl⟩

/-- non-vacuity / remark: with `--phase 1` (outside the property's quantifier) the guard is skipped and an existing file is appended to -/
example : mainGen ⟨fun _ => true, fun _ => .ok ()⟩ "out.py" 1 (.ok (.module [])) =
    [.isfile "out.py", .openAppend "out.py", .write "out.py"] := by decide

/-- non-vacuity: a literal `~/models.py` is not a file for `isfile` (no directory called `~`), the guard passes, and the
    open fails — nothing is written, although `$HOME/models.py` may well exist -/
example : mainGen ⟨fun _ => false, fun _ => .error (.os "FileNotFoundError")⟩ "~/models.py" 0 (.ok (.module [])) =
    [.isfile "~/models.py", .openAppend "~/models.py", .raise (.os "FileNotFoundError")] := by decide

/-! ## import inference -/

/-- **Imports cover (on collected names), in full:** whenever
    `optimise_imports(chain(*map(infer_imports, symbols)))` returns, every collected string of every symbol that some
    module table resolves is imported from that module by one of the returned `ImportFrom` nodes — at *any* nesting
    depth, because the collected strings contain the id of every `Name` node (`collect_walk`). -/
theorem imports_cover (t : Tables) (cs : List (List Str)) (imps : List Imp) (h : inferredFromNames t cs = .ok imps) :
    ∀ c ∈ cs, ∀ n ∈ c, ∀ m, symbolToImport t n = some m → ∃ i ∈ imps, i.module = m ∧ (n, Option.none) ∈ i.names := by
  intro c hc n hn m hm
  unfold inferredFromNames at h
  cases hch : chainAll t cs with
  | error e => simp [hch, Except.map] at h
  | ok L =>
    simp only [hch, Except.map, Except.ok.injEq] at h
    subst h
    obtain ⟨l, hl, hsub⟩ := chainAll_sub t cs L hch c hc
    obtain ⟨i, hi, him, hin⟩ := inferFromNames_covers t c l hl n hn m hm
    have := optimise_covers L i (hsub i hi) _ hin
    rw [him] at this
    exact this

/-- **Imports cover (on the written module):** if `gen_module` returns a module under `--emit-and-infer-imports`, then for
    every generated symbol, every `Name` it uses (at any depth) that a module table resolves is imported by an
    `ImportFrom` statement of that module. -/
theorem imports_cover_module (cfg : Cfg) (hinf : cfg.inferImports = true) (syms : List Stmt) (all : List Str) (body : List Stmt)
    (h : assemble cfg syms all = .ok body) :
    ∀ s ∈ syms, ∀ n ∈ walkNames s, ∀ m, symbolToImport cfg.tables n = some m →
      ∃ i : Imp, impStmt i ∈ body ∧ i.module = m ∧ (n, Option.none) ∈ i.names := by
  intro s hs n hn m hm
  obtain ⟨inf, hdr, pre, hi, hh, _, _, hb⟩ := assemble_ok cfg syms all body h
  have hhdr := headerImports_ok _ _ _ hh
  unfold inferStep at hi
  simp only [hinf, if_true] at hi
  cases hinf' : inferred cfg.tables syms with
  | error e => simp [hinf'] at hi
  | ok inf' =>
    simp only [hinf', Except.ok.injEq] at hi
    subst hi
    unfold inferred at hinf'
    cases hca : collectAll syms with
    | error e => simp [hca] at hinf'
    | ok cs =>
      simp only [hca] at hinf'
      obtain ⟨c, hcm, hcs⟩ := collectAll_spec syms cs hca s hs
      obtain ⟨i, hii, him, hin⟩ := imports_cover cfg.tables cs inf' hinf' c hcm n (collect_walk s c hcs n hn) m hm
      refine ⟨i, ?_, him, hin⟩
      have hmem : impStmt i ∈ hdr := by rw [hhdr]; exact List.mem_append_right _ (List.mem_map.mpr ⟨i, hii, rfl⟩)
      rw [hb, mem_reorder]
      simp [hmem]

/-- **`get_types`, the part that holds:** on `Head[x]` it yields the head and `x`; on `Head[e₁, …]` (not `Literal`) it
    yields the head and every element that is a plain name — the head and the first subscript level. -/
theorem get_types_first_level (h x : Str) (elts : List TExpr) :
    getTypes (.sub (.name h) (.name x)) = .ok (some [.s h, .s x]) ∧
    (h ≠ literalName → TExpr.name x ∈ elts →
      ∃ l, getTypes (.sub (.name h) (.tuple elts)) = .ok (some l) ∧ Item.s h ∈ l ∧ Item.s x ∈ l) := by
  refine ⟨rfl, fun hl hx => ⟨_, rfl, by simp, ?_⟩⟩
  have : (h == literalName) = false := by simpa using hl
  simp only [this, Bool.false_eq_true, if_false, List.mem_cons, List.mem_map]
  exact Or.inr ⟨_, hx, rfl⟩

/-- **`get_types` alone misses nested names (witness):** on `Optional[List[str]]` it returns nothing at all (the slice
    is a `Subscript`), so neither `List` nor even `Optional` comes from it … -/
theorem get_types_misses_nested :
    getTypes (parseAnn ['O','p','t','i','o','n','a','l','[','L','i','s','t','[','s','t','r',']',']']) = .ok Option.none := by
  decide

/-- … **but `infer_imports` does not miss them:** `ast.walk` reaches the nested `Name` nodes, so `List` and `Optional`
    are both collected from the same annotation and both imported (witness, with a two-name `typing` table). -/
theorem nested_found_by_walk :
    let ann := ['O','p','t','i','o','n','a','l','[','L','i','s','t','[','s','t','r',']',']']
    let t : Tables := [(['t','y','p','i','n','g'], [['L','i','s','t'], ['O','p','t','i','o','n','a','l']])]
    exprNames ann = [['O','p','t','i','o','n','a','l'], ['L','i','s','t'], ['s','t','r']] ∧
    inferredFromNames t [exprNames ann] =
      .ok [{ module := ['t','y','p','i','n','g'], names := [(['L','i','s','t'], Option.none), (['O','p','t','i','o','n','a','l'], Option.none)] }] := by
  decide

/-! ## negations: configurations of the quantifier on which `gen` cannot succeed -/

/-- **`--emit function` always fails:** no entry step succeeds, whatever the parser, emitter, template and entry; when the
    earlier steps succeed the exception is the `TypeError` of the call (`function_type` is never supplied). -/
theorem emit_function_always_fails (W : World) (cfg : Cfg) (hk : cfg.emit = .function) (e : Entry) :
    (∀ r, genEntry W cfg e ≠ .ok r) ∧
    (∀ a pn irn, fmt cfg.tpl e.name = .ok a → parserFor cfg.parse e.node = .ok pn → W.parse pn e = .ok irn →
      genEntry W cfg e = .error .typeError) := by
  have hcall : ∀ kw, getEmitKwarg .function cfg.tpl e.name = .ok kw → callCheck .function kw = .error .typeError := by
    intro kw hkw
    rw [getEmitKwarg_eq] at hkw
    split at hkw
    · cases hkw
    · simp only [kwargTable, Except.ok.injEq] at hkw; subst hkw; rfl
  constructor
  · intro r hr
    obtain ⟨s, a⟩ := r
    obtain ⟨_, pn, irn, kw, _, _, hkw, hcc, _⟩ := (genEntry_ok_iff W cfg e s a).mp hr
    rw [hk] at hkw hcc
    rw [hcall kw hkw] at hcc; cases hcc
  · intro a pn irn hf hp hw
    rw [genEntry_after_parse W cfg e a pn irn hf hp hw, hk]
    cases hkw : getEmitKwarg .function cfg.tpl e.name with
    | error err =>
      exfalso
      rw [getEmitKwarg_eq] at hkw
      by_cases hn : (e.name == inferName) = true
      · simp [hn, kwargTable] at hkw
      · simp [hn, hf, Except.map, kwargTable] at hkw
    | ok kw => simp [hcall kw hkw]

/-- **`--emit pydantic` always fails:** `get_emit_kwarg` has no `"pydantic"` key; once template, parser lookup and parser
    succeed the exception is that `KeyError`. -/
theorem emit_pydantic_always_fails (W : World) (cfg : Cfg) (hk : cfg.emit = .pydantic) (e : Entry) :
    (∀ r, genEntry W cfg e ≠ .ok r) ∧
    (∀ a pn irn, fmt cfg.tpl e.name = .ok a → parserFor cfg.parse e.node = .ok pn → W.parse pn e = .ok irn →
      genEntry W cfg e = .error .keyError) := by
  have hkw : ∀ kw, getEmitKwarg .pydantic cfg.tpl e.name ≠ .ok kw := by
    intro kw h
    rw [getEmitKwarg_eq] at h
    split at h
    · cases h
    · simp [kwargTable] at h
  constructor
  · intro r hr
    obtain ⟨s, a⟩ := r
    obtain ⟨_, pn, irn, kw, _, _, hkw', _, _⟩ := (genEntry_ok_iff W cfg e s a).mp hr
    rw [hk] at hkw'
    exact hkw kw hkw'
  · intro a pn irn hf hp hw
    rw [genEntry_after_parse W cfg e a pn irn hf hp hw, hk, getEmitKwarg_eq]
    by_cases hn : (e.name == inferName) = true
    · simp [hn, kwargTable]
    · simp [hn, hf, Except.map, kwargTable]

/-- **`--parse argparse` always fails** (there is no package `cdd.argparse`): for every node, hence every entry step. -/
theorem parse_argparse_always_fails (W : World) (cfg : Cfg) (hp : cfg.parse = .argparse) (e : Entry) :
    parserFor .argparse e.node = .error .moduleNotFound ∧ ∀ r, genEntry W cfg e ≠ .ok r := by
  refine ⟨rfl, fun r hr => ?_⟩
  obtain ⟨s, a⟩ := r
  obtain ⟨_, pn, _, _, hpf, _⟩ := (genEntry_ok_iff W cfg e s a).mp hr
  rw [hp] at hpf
  cases hpf

/-- **`--parse infer` cannot read an argparse function** (`infer` answers `argparse_ast`; no such package) -/
theorem infer_argparse_fails (args : List Str) (h : argumentParserName ∈ args) :
    parserFor .infer (.fn false args) = .error .moduleNotFound := by
  simp only [parserFor, inferNode, List.contains_eq_mem, h, decide_true, if_true, bind, Except.bind]
  rfl

/-- **`infer` on a class looks at every base:** a class is handed to the SQLAlchemy parser exactly when *some* plain-name
    base is called `Base` — wherever it stands among the bases (mixins before or after it make no difference) — and to
    the plain-class parser otherwise. -/
theorem infer_class_any_base (ids : List Str) :
    (baseName ∈ ids → parserFor .infer (.cls ids) = .ok .sqlalchemy) ∧
    (baseName ∉ ids → parserFor .infer (.cls ids) = .ok .class_) ∧
    (∀ pre post, parserFor .infer (.cls (pre ++ baseName :: post)) = .ok .sqlalchemy) := by
  refine ⟨fun h => ?_, fun h => ?_, fun pre post => ?_⟩
  · simp only [parserFor, inferNode, List.contains_eq_mem, h, decide_true, if_true, bind, Except.bind]
    rfl
  · simp only [parserFor, inferNode, List.contains_eq_mem, h, decide_false, Bool.false_eq_true, if_false, bind, Except.bind]
    rfl
  · have h : baseName ∈ pre ++ baseName :: post := by simp
    simp only [parserFor, inferNode, List.contains_eq_mem, h, decide_true, if_true, bind, Except.bind]
    rfl

/-- **`--parse infer` cannot read a JSON-schema file** (`infer(dict)` raises `NotImplementedError`) -/
theorem infer_json_fails (b : Str) :
    fileToInputMapping .infer (.json b) = .ok [⟨b, .json⟩] ∧ parserFor .infer .json = .error .notImplemented := ⟨rfl, rfl⟩

/-- **Import inference crashes as soon as one symbol needs no import:** `infer_imports` returns `None` for it and
    `chain(*…)` raises `TypeError` — for every table and every list of symbols. -/
theorem infer_imports_none_crashes (t : Tables) (cs : List (List Str)) (c : List Str) (hc : c ∈ cs)
    (hn : ∀ n ∈ c, symbolToImport t n = Option.none) :
    inferredFromNames t cs = .error .noneNotIterable := by
  have : inferFromNames t c = Option.none := by
    unfold inferFromNames
    have hp : (sortDedup c).filterMap (fun s => (symbolToImport t s).map (fun m => (s, m))) = [] := by
      rw [List.filterMap_eq_nil_iff]
      intro s hs
      simp [hn s ((mem_sortDedup s c).mp hs)]
    simp only [hp]
    rfl
  unfold inferredFromNames
  rw [chainAll_none t cs c hc this]
  rfl

/-- non-vacuity (witness): an argparse function's names (`argument_parser`, `int`) resolve nowhere -/
example : inferredFromNames [(['t','y','p','i','n','g'], [['L','i','s','t']])] [[['L','i','s','t']], [['i','n','t']]] = .error .noneNotIterable := by
  decide

/-- **Two import statements cannot be written:** `gen_module` joins the file's imports with `""` and the inferred ones
    with `" "` on one line, so two or more of them are a `SyntaxError`; and `optimise_imports` does produce two
    statements for *one* module as soon as a later symbol brings a new name (witness). -/
theorem two_import_statements_crash (fileImps : List Stmt) (inf : List Imp) (h : 2 ≤ (fileImps ++ inf.map impStmt).length) :
    headerImports fileImps inf = .error .syntaxError := by
  unfold headerImports
  split
  · rename_i e; rw [e] at h; simp at h
  · rename_i e; rw [e] at h; simp at h
  · rfl

theorem optimise_two_statements_one_module :
    (optimise [⟨['t'], [(['O'], Option.none)]⟩, ⟨['t'], [(['O'], Option.none), (['L'], Option.none)]⟩]).length = 2 := by decide

/-- **SQLAlchemy emitters: the symbol is not called what `__all__` says.** They receive `table_name` only; the class /
    `Table` variable is named after the parsed entry (for every keyword dict), while `__all__` gets the template
    (witness `{name}Config`). -/
theorem sqlalchemy_name_ne_all :
    (∀ kw irn, irn ≠ [] → symbolName .sqlalchemy kw irn = .ok irn ∧ symbolName .sqlalchemyHybrid kw irn = .ok irn) ∧
    (∀ kw irn, asciiIdent irn = true → symbolName .sqlalchemyTable kw irn = .ok irn) ∧
    fmt ['{','n','a','m','e','}','C','o','n','f','i','g'] ['A'] = .ok ['A','C','o','n','f','i','g'] ∧
    (['A','C','o','n','f','i','g'] : Str) ≠ ['A'] := by
  refine ⟨fun kw irn h => ?_, fun kw irn h => ?_, by decide, by decide⟩
  · have : irn.isEmpty = false := by cases irn <;> simp_all
    simp [symbolName, this]
  · have hne : irn.isEmpty = false := by
      cases irn with
      | nil => simp [asciiIdent, isIdentifier] at h
      | cons _ _ => rfl
    simp [symbolName, hne, ensureValid_id irn h]

/-- **`__all__` is not validated (witness `{name}-cfg`):** the class is called `Alphacfg`, `__all__` says `Alpha-cfg`. -/
theorem invalid_identifier_all_ne_defined :
    let tpl := ['{','n','a','m','e','}','-','c','f','g']
    let name := ['A','l','p','h','a']
    fmt tpl name = .ok ['A','l','p','h','a','-','c','f','g'] ∧
    allEntry ['A','l','p','h','a','-','c','f','g'] = ['A','l','p','h','a','-','c','f','g'] ∧
    (getEmitKwarg .class_ tpl name).toOption.map (·.name) = some (some ['A','l','p','h','a','c','f','g']) := by
  decide

/-- **`ensure_valid_identifier` can return a non-identifier (witnesses):** the digit test precedes the filter
    (`-1a` ↦ `1a`), and the keyword test precedes it too (`cl-ass` ↦ `class`). -/
theorem ensure_valid_not_always_valid :
    ensureValid ['-','1','a'] = ['1','a'] ∧ isPyName ['1','a'] = false ∧
    ensureValid ['c','l','-','a','s','s'] = ['c','l','a','s','s'] ∧ isPyName ['c','l','a','s','s'] = false := by
  decide

/-- the full statement is false of the unchanged code: already its "gen succeeds" part fails (witness: one class, `--emit pydantic`) -/
theorem C19_full_false : ¬ C19_full := by
  intro h
  let W : World := { parse := fun _ e => .ok e.name, emit := fun _ kw _ => .ok (.cls (String.ofList (kw.name.getD [])) [] [] [] []) }
  let cfg : Cfg := { tpl := ['{','n','a','m','e','}'], parse := .class_, emit := .pydantic }
  obtain ⟨⟨o, ho⟩, _⟩ := h W cfg (.py [⟨['A'], .cls []⟩])
  have : gen W cfg (.py [⟨['A'], .cls []⟩]) = .error .keyError := by rfl
  rw [this] at ho
  cases ho

/-- and the identity on real identifiers (used by `defined_eq_all`) -/
theorem ensure_valid_id (s : Str) (h : asciiIdent s = true) : ensureValid s = s := ensureValid_id s h

end C19
