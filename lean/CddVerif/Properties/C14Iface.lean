import CddVerif.Proofs.IfaceWF
/-!
# C14 — the code-format model parsers return a well-formed interface description

`Properties/C14.lean` (ReST) and `Properties/C14GN.lean` (Google / NumPy) cover the docstring parsers.  This file
covers the three *code-format* model parsers of `Model/IfaceParse.lean` — `parseClass` (`cdd.class_.parse.class_`,
also used for pydantic), `parseFunction` (`cdd.function.parse.function`), `parseArgparse`
(`cdd.argparse_function.parse.argparse_ast`) — and the dispatcher `parse`, for **every** input `t : Top` (not only
emitter images), every environment `env` (the docstring layer is a parameter: `env.docParse` answers an arbitrary
`IR`), every flag.

What holds by typing (nothing to prove, recorded in `shape_by_typing`): `IR.params` is an ordered list of
`(name, Param)`, `Param` has exactly the fields `doc`/`typ`/`default` (the extension key `x_typ` is not modelled),
`IR.returns : Option Param` is absent or one record.

The hypotheses (`DocDistinct`, `DocNamesNE`, `SigDistinct`, `DocTypNE`, `AdhocNE`, `clsAnnNE`, `fnAnnNE`, `apAnnNE`,
`apRetTypOK`), the input projections (`sigNames`, `allArgNames`, `clsBodyNames`, `apBodyNames`, `clsDocParams`,
`fnDocIR`) and the witness environment `envK` are defined in `Proofs/IfaceWF.lean`.

The key lists are characterised exactly (`class_keys`, `function_keys`, `argparse_keys`) through `Iface.addKeys`
(insertion of names into an ordered dict); every clause below is read off these.
-/
namespace C14Iface
open Iface

/-- **shape, by typing**: the return entry is absent or exactly one record — `IR.returns : Option Param`; likewise a
    parameter record has only the fields `doc`/`typ`/`default` of the structure `Param`.  Not a property of the
    parsers but of the model's types; recorded so that it is not silently assumed. -/
theorem shape_by_typing (ir : IR) : ir.returns = none ∨ ∃ r, ir.returns = some r := by
  cases ir.returns with
  | none => exact Or.inl rfl
  | some r => exact Or.inr ⟨r, rfl⟩

/-! ## the exact key lists -/

/-- **names, class/pydantic (exact)**: the docstring layer's names without `return_type`, then the attribute names
    the docstring did not mention (first occurrences, body order; `return_type` is the return entry) -/
theorem class_keys (env : Env) (it : Bool) (t : Top) (ir : IR) (h : parseClass env it t = .ok ir) :
    dkeys ir.params = addKeys (dkeys (dpop (clsDocParams env t) "return_type")) (clsBodyNames t) :=
  (parseClass_keys h).1

/-- **names, function (exact)**: the signature's names when the docstring layer has no entries, otherwise the
    docstring layer's names followed by the signature names it did not mention -/
theorem function_keys (env : Env) (it : Bool) (t : Top) (ir : IR) (h : parseFunction env it t = .ok ir) :
    dkeys ir.params = (if (fnDocIR env it t).params.isEmpty then sigNames t
                       else addKeys (dkeys (fnDocIR env it t).params) (sigNames t)) :=
  (parseFunction_keys h).1

/-- **names, argparse (exact)**: the `add_argument` names, first occurrences, in body order; the docstring layer
    contributes no name -/
theorem argparse_keys (env : Env) (t : Top) (ir : IR) (h : parseArgparse env t = .ok ir) :
    dkeys ir.params = addKeys [] (apBodyNames t) :=
  parseArgparse_keys h

/-! ## clause 1 — names are pairwise distinct -/

/-- **clause "names pairwise distinct", class/pydantic**: needs only that the docstring layer's names are distinct -/
theorem class_names_distinct (env : Env) (hdoc : DocDistinct env) (it : Bool) (t : Top) (ir : IR)
    (h : parseClass env it t = .ok ir) : (dkeys ir.params).Nodup := by
  rw [class_keys env it t ir h]
  exact addKeys_nodup _ _ ((dkeys_dpop_sublist _ _).nodup (clsDocParams_nodup hdoc t))

/-- **clause "names pairwise distinct", function**: needs the docstring layer's names distinct and the signature's
    names distinct (`SigDistinct`: CPython's guarantee) -/
theorem function_names_distinct (env : Env) (hdoc : DocDistinct env) (it : Bool) (t : Top) (hsig : SigDistinct t) (ir : IR)
    (h : parseFunction env it t = .ok ir) : (dkeys ir.params).Nodup := by
  rw [function_keys env it t ir h]
  split
  · exact hsig
  · exact addKeys_nodup _ _ (fnDocParams_nodup hdoc it t)

/-- **clause "names pairwise distinct", argparse**: unconditional (no hypothesis on the docstring layer or the input) -/
theorem argparse_names_distinct (env : Env) (t : Top) (ir : IR) (h : parseArgparse env t = .ok ir) :
    (dkeys ir.params).Nodup := by
  rw [argparse_keys env t ir h]
  exact addKeys_nodup _ _ List.nodup_nil

/-- **clause "names pairwise distinct", dispatcher `parse`** -/
theorem parse_names_distinct (env : Env) (hdoc : DocDistinct env) (f : Format) (t : Top)
    (hsig : f = .function → SigDistinct t) (ir : IR) (h : parse env f t = .ok ir) : (dkeys ir.params).Nodup := by
  cases f with
  | class_ => exact class_names_distinct env hdoc _ t ir h
  | pydantic => exact class_names_distinct env hdoc _ t ir h
  | function => exact function_names_distinct env hdoc _ t (hsig rfl) ir h
  | argparse => exact argparse_names_distinct env t ir h

/-! ### the hypotheses are needed -/

/-- a docstring layer that answers the name `a` twice -/
def dDup : IR := { params := [("a", {}), ("a", {})] }
def tClsDoc : Top := .cls "C" [] [.doc "d"]
def tFnDoc : Top := .fn "f" {} [.doc "d"] none
/-- `def f(a, a): ...` — not producible by CPython's parser, but a value of the model type -/
def tFnDupSig : Top := .fn "f" { args := [{ name := "a" }, { name := "a" }] } [] none

/-- **negation**: without `DocDistinct` the class parser returns a duplicate name -/
theorem class_distinct_needs_doc :
    ¬ ∀ (env : Env) (it : Bool) (t : Top) (ir : IR), parseClass env it t = .ok ir → (dkeys ir.params).Nodup := by
  intro h
  obtain ⟨ir, hp, hk⟩ := okAnd_spec (x := parseClass (envK dDup) false tClsDoc) (p := fun ir => dkeys ir.params == ["a", "a"]) (by decide)
  have := h _ _ _ _ hp
  rw [eq_of_beq hk] at this
  exact absurd this (by decide)

/-- **negation**: without `DocDistinct` the function parser returns a duplicate name (signature empty) -/
theorem function_distinct_needs_doc :
    ¬ ∀ (env : Env) (it : Bool) (t : Top) (ir : IR), SigDistinct t → parseFunction env it t = .ok ir → (dkeys ir.params).Nodup := by
  intro h
  obtain ⟨ir, hp, hk⟩ := okAnd_spec (x := parseFunction (envK dDup) false tFnDoc) (p := fun ir => dkeys ir.params == ["a", "a"]) (by decide)
  have := h _ _ _ _ (by decide) hp
  rw [eq_of_beq hk] at this
  exact absurd this (by decide)

/-- **negation**: without `SigDistinct` the function parser returns a duplicate name (no docstring, `def f(a, a)`) -/
theorem function_distinct_needs_sig :
    ¬ ∀ (env : Env) (it : Bool) (t : Top) (ir : IR), DocDistinct env → parseFunction env it t = .ok ir → (dkeys ir.params).Nodup := by
  intro h
  obtain ⟨ir, hp, hk⟩ := okAnd_spec (x := parseFunction (envK {}) false tFnDupSig) (p := fun ir => dkeys ir.params == ["a", "a"]) (by decide)
  have := h _ _ _ _ (docDistinct_envK (d := {}) List.nodup_nil) hp
  rw [eq_of_beq hk] at this
  exact absurd this (by decide)

/-! ## clause 2 — no name starts with `*`; non-empty names -/

/-- **clause "no leading `*`", class/pydantic**: unconditional — `_set_name_and_type` refuses such a name (and one
    ending in `kwargs`), so the parser raises instead of returning it -/
theorem class_names_no_star (env : Env) (it : Bool) (t : Top) (ir : IR) (h : parseClass env it t = .ok ir) :
    ∀ k ∈ dkeys ir.params, startsWith k "*" = false ∧ endsWith k "kwargs" = false :=
  fun k hk => ⟨((parseClass_keys h).2 k hk).2, ((parseClass_keys h).2 k hk).1⟩

/-- **clause "no leading `*`", function**: unconditional, same reason -/
theorem function_names_no_star (env : Env) (it : Bool) (t : Top) (ir : IR) (h : parseFunction env it t = .ok ir) :
    ∀ k ∈ dkeys ir.params, startsWith k "*" = false ∧ endsWith k "kwargs" = false :=
  fun k hk => ⟨((parseFunction_keys h).2 k hk).2, ((parseFunction_keys h).2 k hk).1⟩

/-- **clause "no leading `*`", argparse**: the names are exactly the `add_argument` names, so the clause holds iff it
    holds of them (the argparse parser never calls `_set_name_and_type`) -/
theorem argparse_names_no_star (env : Env) (t : Top) (hb : ∀ k ∈ apBodyNames t, startsWith k "*" = false) (ir : IR)
    (h : parseArgparse env t = .ok ir) : ∀ k ∈ dkeys ir.params, startsWith k "*" = false := by
  intro k hk
  rw [argparse_keys env t ir h, mem_addKeys] at hk
  rcases hk with hk | hk
  · cases hk
  · exact hb k hk

/-- `argument_parser.add_argument('--*a')` under a docstring -/
def tApStar : Top := .fn "f" {} [.doc "d", .addArg { name := "*a" }] none

/-- **negation of "no leading `*`" for the argparse model parser**: `add_argument('--*a')` yields the name `*a` -/
theorem argparse_no_star_false :
    ¬ ∀ (env : Env) (t : Top) (ir : IR), parseArgparse env t = .ok ir → ∀ k ∈ dkeys ir.params, startsWith k "*" = false := by
  intro h
  obtain ⟨ir, hp, hk⟩ := okAnd_spec (x := parseArgparse (envK {}) tApStar) (p := fun ir => dkeys ir.params == ["*a"]) (by decide)
  have := h _ _ _ hp "*a" (by rw [eq_of_beq hk]; exact List.mem_cons_self ..)
  exact absurd this (by decide)

/-- **clause "no leading `*`", dispatcher** (the three formats that go through `_set_name_and_type`) -/
theorem parse_names_no_star (env : Env) (f : Format) (hf : f ≠ .argparse) (t : Top) (ir : IR) (h : parse env f t = .ok ir) :
    ∀ k ∈ dkeys ir.params, startsWith k "*" = false := by
  cases f with
  | class_ => exact fun k hk => (class_names_no_star env _ t ir h k hk).1
  | pydantic => exact fun k hk => (class_names_no_star env _ t ir h k hk).1
  | function => exact fun k hk => (function_names_no_star env _ t ir h k hk).1
  | argparse => exact absurd rfl hf

/-- **clause "names non-empty", class/pydantic**: holds when the docstring layer answers no empty name and no
    attribute target is empty (CPython: an identifier is non-empty) -/
theorem class_names_nonempty (env : Env) (hne : DocNamesNE env) (it : Bool) (t : Top) (hb : ∀ k ∈ clsBodyNames t, k ≠ "") (ir : IR)
    (h : parseClass env it t = .ok ir) : ∀ k ∈ dkeys ir.params, k ≠ "" := by
  intro k hk
  rw [class_keys env it t ir h, mem_addKeys] at hk
  rcases hk with hk | hk
  · exact mem_clsDocParams hne t k (mem_dkeys_dpop hk)
  · exact hb k hk

/-- **clause "names non-empty", function**: holds when the docstring layer answers no empty name and no argument
    name is empty (CPython) -/
theorem function_names_nonempty (env : Env) (hne : DocNamesNE env) (it : Bool) (t : Top) (hb : ∀ k ∈ sigNames t, k ≠ "") (ir : IR)
    (h : parseFunction env it t = .ok ir) : ∀ k ∈ dkeys ir.params, k ≠ "" := by
  intro k hk
  rw [function_keys env it t ir h] at hk
  split at hk
  · exact hb k hk
  · rw [mem_addKeys] at hk
    rcases hk with hk | hk
    · exact mem_fnDocParams hne it t k hk
    · exact hb k hk

/-- **clause "names non-empty", argparse**: holds iff no `add_argument` name is empty -/
theorem argparse_names_nonempty (env : Env) (t : Top) (hb : ∀ k ∈ apBodyNames t, k ≠ "") (ir : IR)
    (h : parseArgparse env t = .ok ir) : ∀ k ∈ dkeys ir.params, k ≠ "" := by
  intro k hk
  rw [argparse_keys env t ir h, mem_addKeys] at hk
  rcases hk with hk | hk
  · cases hk
  · exact hb k hk

/-- a docstring layer that answers one entry with the empty name (the real ReST parser does on `":param : x"`) -/
def dEmpty : IR := { params := [("", { doc := some "x" })] }
/-- `argument_parser.add_argument('--')` -/
def tApEmpty : Top := .fn "f" {} [.doc "d", .addArg { name := "" }] none

/-- **negation of "names non-empty", class** (the empty name comes from the docstring layer) -/
theorem class_nonempty_needs_doc :
    ¬ ∀ (env : Env) (it : Bool) (t : Top) (ir : IR), (∀ k ∈ clsBodyNames t, k ≠ "") → parseClass env it t = .ok ir →
        ∀ k ∈ dkeys ir.params, k ≠ "" := by
  intro h
  obtain ⟨ir, hp, hk⟩ := okAnd_spec (x := parseClass (envK dEmpty) false tClsDoc) (p := fun ir => dkeys ir.params == [""]) (by decide)
  exact h _ _ _ _ (by decide) hp "" (by rw [eq_of_beq hk]; exact List.mem_cons_self ..) rfl

/-- **negation of "names non-empty", function** (the empty name comes from the docstring layer) -/
theorem function_nonempty_needs_doc :
    ¬ ∀ (env : Env) (it : Bool) (t : Top) (ir : IR), (∀ k ∈ sigNames t, k ≠ "") → parseFunction env it t = .ok ir →
        ∀ k ∈ dkeys ir.params, k ≠ "" := by
  intro h
  obtain ⟨ir, hp, hk⟩ := okAnd_spec (x := parseFunction (envK dEmpty) false tFnDoc) (p := fun ir => dkeys ir.params == [""]) (by decide)
  exact h _ _ _ _ (by decide) hp "" (by rw [eq_of_beq hk]; exact List.mem_cons_self ..) rfl

/-- **negation of "names non-empty", argparse**: `add_argument('--')` yields the empty name -/
theorem argparse_nonempty_false :
    ¬ ∀ (env : Env) (t : Top) (ir : IR), parseArgparse env t = .ok ir → ∀ k ∈ dkeys ir.params, k ≠ "" := by
  intro h
  obtain ⟨ir, hp, hk⟩ := okAnd_spec (x := parseArgparse (envK {}) tApEmpty) (p := fun ir => dkeys ir.params == [""]) (by decide)
  exact h _ _ _ hp "" (by rw [eq_of_beq hk]; exact List.mem_cons_self ..) rfl

/-- the name clauses at full strength, for every format, every environment, every input — **false** of the model
    parsers (`names_full_false`); what holds is `parse_names_distinct`, `parse_names_no_star`, `*_names_nonempty` -/
def C14Iface_names_full : Prop :=
  ∀ (env : Env) (f : Format) (t : Top) (ir : IR), parse env f t = .ok ir →
    (dkeys ir.params).Nodup ∧ ∀ k ∈ dkeys ir.params, k ≠ "" ∧ startsWith k "*" = false

theorem names_full_false : ¬ C14Iface_names_full := by
  intro h
  obtain ⟨ir, hp, hk⟩ := okAnd_spec (x := parse (envK {}) .argparse tApStar) (p := fun ir => dkeys ir.params == ["*a"]) (by decide)
  have := ((h _ _ _ _ hp).2 "*a" (by rw [eq_of_beq hk]; exact List.mem_cons_self ..)).2
  exact absurd this (by decide)

/-! ## clause 3 — `sig_complete`: every signature parameter occurs exactly once -/

/-- the names the function parser keeps are all argument names, or all but a leading `self` / `cls` -/
theorem sigNames_drop (t : Top) :
    sigNames t = allArgNames t ∨ ∃ r, (r = "self" ∨ r = "cls") ∧ allArgNames t = r :: sigNames t := by
  cases t with
  | cls _ _ _ => exact Or.inl rfl
  | fn n a b r =>
    simp only [sigNames, allArgNames, fnPosArgs]
    cases hargs : a.args with
    | nil => left; simp [foundTypeOf]
    | cons x xs =>
      by_cases hx : (x.name == "self" || x.name == "cls") = true
      · right
        refine ⟨x.name, by simpa using hx, ?_⟩
        have hne : (x.name == "static") = false := by
          simp only [Bool.or_eq_true, beq_iff_eq] at hx
          rcases hx with e | e <;> (rw [e]; decide)
        simp [foundTypeOf, hx, hne]
      · left
        simp [foundTypeOf, hx]

/-- **`sig_complete`, occurrence**: every positional-or-keyword and keyword-only parameter of the signature (after the
    `self`/`cls` drop) is among the parsed names — unconditional -/
theorem sig_complete_mem (env : Env) (it : Bool) (t : Top) (ir : IR) (h : parseFunction env it t = .ok ir) :
    ∀ n ∈ sigNames t, n ∈ dkeys ir.params := by
  intro n hn
  rw [function_keys env it t ir h]
  split
  · exact hn
  · exact (mem_addKeys _ _ _).mpr (Or.inr hn)

/-- **`sig_complete`, exactly once**: under `DocDistinct` and `SigDistinct` every signature parameter occurs exactly
    once among the parsed names -/
theorem sig_complete (env : Env) (hdoc : DocDistinct env) (it : Bool) (t : Top) (hsig : SigDistinct t) (ir : IR)
    (h : parseFunction env it t = .ok ir) : ∀ n ∈ sigNames t, (dkeys ir.params).count n = 1 :=
  fun n hn => count_eq_one_of_nodup (function_names_distinct env hdoc it t hsig ir h) (sig_complete_mem env it t ir h n hn)

/-- **order (exact)**: with distinct signature names, the parsed names are the docstring layer's names in *its* order,
    then the undocumented signature names in signature order -/
theorem sig_order_exact (env : Env) (it : Bool) (t : Top) (hsig : SigDistinct t) (ir : IR)
    (h : parseFunction env it t = .ok ir) :
    dkeys ir.params = dkeys (fnDocIR env it t).params ++
      (sigNames t).filter (fun k => decide (k ∉ dkeys (fnDocIR env it t).params)) := by
  rw [function_keys env it t ir h]
  split
  · rename_i he
    simp only [List.isEmpty_iff] at he
    simp only [he, dkeys, List.map_nil, List.nil_append, List.not_mem_nil, not_false_eq_true, decide_true]
    exact (List.filter_eq_self.mpr (fun _ _ => rfl)).symm
  · exact addKeys_eq_filter _ _ hsig

/-- **order, no documented signature name**: if the docstring layer mentions none of the signature's names (in
    particular: no docstring), the signature names occur in signature order -/
theorem sig_order_undocumented (env : Env) (it : Bool) (t : Top) (hsig : SigDistinct t) (ir : IR)
    (h : parseFunction env it t = .ok ir) (hun : ∀ n ∈ sigNames t, n ∉ dkeys (fnDocIR env it t).params) :
    (sigNames t).Sublist (dkeys ir.params) := by
  rw [sig_order_exact env it t hsig ir h]
  have : (sigNames t).filter (fun k => decide (k ∉ dkeys (fnDocIR env it t).params)) = sigNames t :=
    List.filter_eq_self.mpr (fun k hk => by simpa using hun k hk)
  rw [this]
  exact List.sublist_append_right _ _

/-- the order clause at full strength: the signature's names occur in signature order — **false** (`sig_order_false`):
    documented names keep the docstring's order and come first -/
def SigOrder : Prop :=
  ∀ (env : Env) (it : Bool) (t : Top) (ir : IR), DocDistinct env → SigDistinct t → parseFunction env it t = .ok ir →
    (sigNames t).Sublist (dkeys ir.params)

/-- a docstring layer that documents `b` before `a` -/
def dBA : IR := { params := [("b", { doc := some "x" }), ("a", { doc := some "y" })] }
/-- `def f(a, b): """d"""` -/
def tFnAB : Top := .fn "f" { args := [{ name := "a" }, { name := "b" }] } [.doc "d"] none

/-- **negation of the order clause**: `def f(a, b)` whose docstring documents `b` first parses to the names `b, a` -/
theorem sig_order_false : ¬ SigOrder := by
  intro h
  obtain ⟨ir, hp, hk⟩ := okAnd_spec (x := parseFunction (envK dBA) false tFnAB) (p := fun ir => dkeys ir.params == ["b", "a"]) (by decide)
  have := h _ _ _ _ (docDistinct_envK (by decide)) (by decide) hp
  rw [eq_of_beq hk] at this
  exact absurd this (by decide)

/-! ## clause 4 — a present type is a non-empty string (parameter entries and the return entry) -/

/-- **clause "present type non-empty", class/pydantic** (entries and return entry): needs the docstring layer and the
    ad-hoc type reader not to answer `""`, and non-empty annotations in the body (CPython) -/
theorem class_typ_nonempty (env : Env) (hA : AdhocNE env) (hD : DocTypNE env) (it : Bool) (t : Top) (ht : clsAnnNE t) (ir : IR)
    (h : parseClass env it t = .ok ir) : (∀ kv ∈ ir.params, kv.2.typ ≠ some "") ∧ ∀ r, ir.returns = some r → r.typ ≠ some "" :=
  parseClass_typ hA hD ht h

/-- **clause "present type non-empty", function** (entries and return entry): same hypotheses, for the signature's
    annotations and the return annotation -/
theorem function_typ_nonempty (env : Env) (hA : AdhocNE env) (hD : DocTypNE env) (it : Bool) (t : Top) (ht : fnAnnNE t) (ir : IR)
    (h : parseFunction env it t = .ok ir) : (∀ kv ∈ ir.params, kv.2.typ ≠ some "") ∧ ∀ r, ir.returns = some r → r.typ ≠ some "" :=
  parseFunction_typ hA hD ht h

/-- **clause "present type non-empty", argparse** (entries and return entry): needs non-empty `type=` names and a
    docstring return type that is neither empty nor the degenerate `Tuple[ArgumentParser, ]` -/
theorem argparse_typ_nonempty (env : Env) (hR : ∀ s, apRetTypOK (env.docParse .argparse s)) (t : Top) (ht : apAnnNE t) (ir : IR)
    (h : parseArgparse env t = .ok ir) : (∀ kv ∈ ir.params, kv.2.typ ≠ some "") ∧ ∀ r, ir.returns = some r → r.typ ≠ some "" :=
  parseArgparse_typ hR ht h

/-- a docstring layer whose return type is `Tuple[ArgumentParser, ]` (legal Python) -/
def dTuple : IR := { returns := some { typ := some "Tuple[ArgumentParser, ]" } }
/-- an argparse function with a `:return:` line and `return argument_parser, x` -/
def tApRet : Top := .fn "f" {} [.doc ":return: argument_parser, x", .retTuple (.name "x")] none

/-- **negation of "present type non-empty" for the argparse return entry of the model**: stripping
    `Tuple[ArgumentParser, ` and `]` from `Tuple[ArgumentParser, ]` leaves the empty type, although the docstring
    layer's type was non-empty.  Shows that `apRetTypOK` cannot be weakened to "non-empty" for the *model* theorem; the
    real `_parse_return` raises `IndexError` on this input (replayed by hand), so this is not a finding about the code. -/
theorem argparse_return_typ_empty :
    ∃ ir r, parseArgparse (envK dTuple) tApRet = .ok ir ∧ ir.returns = some r ∧ r.typ = some "" := by
  obtain ⟨ir, hp, hk⟩ := okAnd_spec (x := parseArgparse (envK dTuple) tApRet)
    (p := fun ir => match ir.returns with | some r => r.typ == some "" | none => false) (by decide)
  cases hr : ir.returns with
  | none => simp [hr] at hk
  | some r => exact ⟨ir, r, hp, hr, by simpa [hr] using hk⟩

/-- a docstring layer that answers an entry with the empty type (the real NumPy parser does on `name :`,
    `C14GN.empty_typ_*`) -/
def dEmptyTyp : IR := { params := [("a", { typ := some "" })] }

/-- **negation**: without `DocTypNE` the class parser returns an entry whose type is `""` -/
theorem class_typ_needs_doc :
    ∃ ir, parseClass (envK dEmptyTyp) false tClsDoc = .ok ir ∧ ∃ kv ∈ ir.params, kv.2.typ = some "" := by
  obtain ⟨ir, hp, hk⟩ := okAnd_spec (x := parseClass (envK dEmptyTyp) false tClsDoc)
    (p := fun ir => ir.params.any (fun kv => kv.2.typ == some "")) (by decide)
  simp only [List.any_eq_true, beq_iff_eq] at hk
  exact ⟨ir, hp, hk⟩

/-! ## non-vacuity: a concrete environment and inputs that satisfy every hypothesis, with a successful parse -/

/-- what the ideal docstring layer answers: two documented entries and a typed return entry -/
def dOK : IR :=
  { doc := "Summary.", params := [("a", { doc := some "first", typ := some "int" }), ("b", { doc := some "second" })],
    returns := some { doc := some "the result", typ := some "Tuple[ArgumentParser, str]" } }

/-- `class C: """d"""; a: int = 1; c: str; return_type: str = 'K'` -/
def tClsOK : Top :=
  .cls "C" [] [.doc "d", .ann "a" "int" (some (.const (.val (.int 1)))), .ann "c" "str" none,
               .ann "return_type" "str" (some (.const (.val (.str "K"))))]
/-- `def f(self, c: int, a=1, *, k: str = 'x') -> str: """d"""; return 'K'` -/
def tFnOK : Top :=
  .fn "f" { args := [{ name := "self" }, { name := "c", ann := some "int" }, { name := "a" }], defaults := [.const (.val (.int 1))],
            kwonly := [{ name := "k", ann := some "str" }], kwDefaults := [some (.const (.val (.str "x")))] }
    [.doc "d", .ret (.const (.val (.str "K")))] (some "str")
/-- an argparse function with two `add_argument` calls (one repeated) and `return argument_parser, x` -/
def tApOK : Top :=
  .fn "set_cli_args" { args := [{ name := "argument_parser" }] }
    [.doc ":return: argument_parser, x", .descr (.val (.str "Summary.")), .addArg { name := "a", typ := some "int", required := true },
     .addArg { name := "b", help := some "second" }, .addArg { name := "a", typ := some "int" }, .retTuple (.name "x")] none

example : DocDistinct (envK dOK) ∧ DocNamesNE (envK dOK) ∧ DocTypNE (envK dOK) ∧ AdhocNE (envK dOK) ∧
    (∀ s, apRetTypOK ((envK dOK).docParse .argparse s)) :=
  ⟨docDistinct_envK (by decide), docNamesNE_envK (by decide), docTypNE_envK ⟨by decide, by intro r hr; cases hr; decide⟩, adhocNE_envK _,
   fun _ => by intro rt t h1 h2; cases h1; cases h2; exact ⟨by decide, by decide⟩⟩

example : SigDistinct tFnOK ∧ (∀ k ∈ sigNames tFnOK, k ≠ "") ∧ fnAnnNE tFnOK ∧ sigNames tFnOK = ["c", "a", "k"] ∧
    allArgNames tFnOK = ["self", "c", "a", "k"] := by
  refine ⟨by decide, by decide, ⟨by decide, by decide⟩, by decide, by decide⟩

example : (∀ k ∈ clsBodyNames tClsOK, k ≠ "") ∧ clsAnnNE tClsOK ∧ clsBodyNames tClsOK = ["a", "c"] := by
  refine ⟨by decide, ?_, by decide⟩
  intro s hs
  simp only [List.mem_cons, List.mem_nil_iff, or_false] at hs
  rcases hs with rfl | rfl | rfl | rfl <;> simp [annNE]

example : (∀ k ∈ apBodyNames tApOK, k ≠ "" ∧ startsWith k "*" = false) ∧ apAnnNE tApOK ∧ apBodyNames tApOK = ["a", "b", "a"] := by
  refine ⟨by decide, ?_, by decide⟩
  intro s hs
  simp only [List.mem_cons, List.mem_nil_iff, or_false] at hs
  rcases hs with rfl | rfl | rfl | rfl | rfl | rfl <;> simp [addArgNE]

/-- the three parsers succeed on these inputs; documented names first, then the rest in source order -/
example : okAnd (parseClass (envK dOK) false tClsOK) (fun ir => dkeys ir.params == ["a", "b", "c"] && ir.returns.isSome) = true := by decide
example : okAnd (parseFunction (envK dOK) false tFnOK) (fun ir => dkeys ir.params == ["a", "b", "c", "k"] && ir.returns.isSome) = true := by decide
example : okAnd (parseArgparse (envK dOK) tApOK)
    (fun ir => dkeys ir.params == ["a", "b"] && (match ir.returns with | some r => r.typ == some "str" | none => false)) = true := by decide

/-- `def f(x, y): return x` — no docstring: none of the signature's names is documented -/
def tFnNoDoc : Top := .fn "f" { args := [{ name := "x" }, { name := "y" }] } [.ret (.name "x")] none

/-- non-vacuity of `sig_order_undocumented` -/
example : SigDistinct tFnNoDoc ∧ (∀ n ∈ sigNames tFnNoDoc, n ∉ dkeys (fnDocIR (envK dOK) false tFnNoDoc).params) ∧
    okAnd (parseFunction (envK dOK) false tFnNoDoc) (fun ir => dkeys ir.params == ["x", "y"]) = true := by decide

end C14Iface
