import CddVerif.Proofs.Sql
/-!
# C05 — SQLAlchemy class, Table and hybrid forms round-trip and agree

Statement (properties.jsonl): emitting an interface as a declarative class, a `Table` expression or a hybrid class and
parsing the rendered source back yields the same columns (names, order, scalar/Enum types, nullability, defaults,
descriptions, primary- and foreign-key markers); parsing any of the three emissions gives the same result; every emission
has exactly one primary key.  Quantifier: all interfaces of the SQL-representable domain × the three variants ×
`force_pk_id ∈ {True, False}` (the docstring style only reaches the header docstring: the model keeps the text every
emitter hands to the docstring emitter, `header_text_agrees`, and leaves the docstring emitter/parser itself out).

The model is `CddVerif/Model/Sql.lean` (tied to /repo by `harness/props/c05.py`); the two type tables are
`Gen.SqlTables`, regenerated from /repo on every run.

* (i)   `one_pk`, `one_pk_table`, `one_pk_class`, `one_pk_hybrid`, `at_least_one_pk` — **full**
* (ii)  `column_round_trip`, `columns_round_trip`, `all_variants_round_trip` — **partial**: on `inDomain`
        (= the property's domain without a bare `dict` and without one-member `Literal`s), with
        `ensurePK` as the stated normalisation; `ensurePK_keeps_columns` says when that normalisation only marks / adds;
        `normDoc_clean`, `normVal_plain` say the per-column normalisation is the identity on clean descriptions / plain
        defaults (up to the `.` appended to the description of a column with a default).
        Negations on witnesses: `dict_becomes_optional`, `single_literal_lost`, `ensurePK_replaces_id`, `C05_full_false`.
* names: `names_untouched` — column names are opaque strings; which modelled steps inspect them.
* header: `header_text_agrees` — the text handed to the docstring emitter agrees between the variants (the docstring
        emitter / parser themselves are not modelled); `header_text_before_fix` records the repaired defect.
* (iii) `variants_agree` — **full** (every parameter dict, typed or not, failing or not), `table_to_class_round_trip`.
-/
namespace C05
open Sql Py

/-! ## (i) exactly one primary key in every emission -/

/-- number of parameters whose description starts with the explicit marker `[PK]` -/
def markerCount (ps : Params) : Nat := ps.countP (fun kv => docHasPK kv.2)

/-- the `Column(…)` calls of an emitted class body: the assigned columns, or the columns of an assigned `Table(…)` -/
def emissionCols (cls : ClassDef) : List ColumnCall :=
  cls.body.flatMap (fun s => match s with
    | .assignCol _ c => [c]
    | .assignTable _ t => t.cols
    | _ => [])

/-- **(i), core.** For every parameter dict (distinct names, at most one explicit `[PK]`), both values of
    `force_pk_id` and both argument conventions, the emitted columns carry exactly one `primary_key=True`. -/
theorem one_pk (incl force : Bool) (ps : Params) (cols : List (Str × ColumnCall)) (hnd : (keys ps).Nodup)
    (hm : markerCount ps ≤ 1) (h : emitCols incl force ps = .ok cols) : countPK (cols.map (·.2)) = 1 := by
  rw [countPK_emitCols h, countP_ensurePK force ps hnd]
  unfold markerCount at hm
  split <;> omega

/-- without the "at most one `[PK]`" hypothesis there is still at least one primary key -/
theorem at_least_one_pk (incl force : Bool) (ps : Params) (cols : List (Str × ColumnCall)) (hnd : (keys ps).Nodup)
    (h : emitCols incl force ps = .ok cols) : 1 ≤ countPK (cols.map (·.2)) := by
  rw [countPK_emitCols h, countP_ensurePK force ps hnd]
  split <;> omega

/-- **(i)** for the `Table` emission -/
theorem one_pk_table (force : Bool) (ir : IR) (a : Str × TableCall) (hnd : (keys ir.params).Nodup)
    (hm : markerCount ir.params ≤ 1) (h : emitTable force ir = .ok a) : countPK a.2.cols = 1 := by
  unfold emitTable emitTableNamed at h
  cases hc : emitCols true force ir.params with
  | error e => rw [hc] at h; cases h
  | ok cols =>
    rw [hc] at h
    cases h
    exact one_pk true force ir.params cols hnd hm hc

/-- **(i)** for the declarative class emission -/
theorem one_pk_class (force : Bool) (ir : IR) (cls : ClassDef) (hnd : (keys ir.params).Nodup)
    (hm : markerCount ir.params ≤ 1) (h : emitClass force ir = .ok cls) : countPK (emissionCols cls) = 1 := by
  unfold emitClass headerStmts at h
  cases hc : emitCols false force ir.params with
  | error e => rw [hc] at h; cases h
  | ok cols =>
    rw [hc] at h
    cases h
    have : emissionCols ⟨ir.name, (if classHasDoc ir then [Stmt.docstring ir.doc] else []) ++ (Stmt.assignStr c!"__tablename__" (setValueStr ir.name) ::
          (cols.map (fun kc => Stmt.assignCol kc.1 kc.2) ++ [Stmt.funcDef c!"__repr__"]))⟩ = cols.map (·.2) := by
      have hfm : ∀ l : List (Str × ColumnCall), List.flatMap (fun a => [a.snd]) l = l.map (·.2) := by
        intro l; induction l with
        | nil => rfl
        | cons a as ih => simp [List.flatMap_cons, ih]
      unfold emissionCols
      cases classHasDoc ir <;> simp [List.flatMap_cons, List.flatMap_append, List.flatMap_map, hfm]
    rw [this]
    exact one_pk false force ir.params cols hnd hm hc

/-- **(i)** for the hybrid emission (`force_pk_id` is handed on to the inner `Table`) -/
theorem one_pk_hybrid (force : Bool) (ir : IR) (cls : ClassDef) (hnd : (keys ir.params).Nodup)
    (hm : markerCount ir.params ≤ 1) (h : emitHybrid force ir = .ok cls) : countPK (emissionCols cls) = 1 := by
  unfold emitHybrid emitTableNamed headerStmts at h
  cases hc : emitCols true force ir.params with
  | error e => rw [hc] at h; cases h
  | ok cols =>
    rw [hc] at h
    cases h
    have : ∀ (t : Str) (tbl : TableCall), emissionCols ⟨ir.name, (if classHasDoc ir then [Stmt.docstring ir.doc] else []) ++
          [Stmt.assignStr c!"__tablename__" (setValueStr ir.name),
           Stmt.assignTable t tbl, Stmt.funcDef c!"__repr__", Stmt.funcDef c!"create_from_attr"]⟩ = tbl.cols := by
      intro t tbl
      unfold emissionCols
      cases classHasDoc ir <;> simp [List.flatMap_cons]
    rw [this]
    exact one_pk true force ir.params cols hnd hm hc

/-- non-vacuity of (i): two candidate names and no marker — the invented `id` column is the one primary key -/
example : (emitCols true false [(c!"dataset_name", { typ := some (some (.name c!"str")) }), (c!"tbl_name", {})]).map
    (fun cols => (cols.map (·.1), countPK (cols.map (·.2)))) = .ok ([c!"dataset_name", c!"tbl_name", c!"id"], 1) := by decide

/-! ## the type tables -/

/-- **Table theorem** (over `Gen.SqlTables`, regenerated from /repo): for `int`, `float`, `str`, `bool`, `dict` the
    column type the emitter picks is an SQLAlchemy name (so no `LargeBinary` fallback is appended), is an identifier,
    is a key of `column_type2typ`, and maps back to the same type — except `dict`, which comes back as
    `Optional[dict]`; `Enum` is an SQLAlchemy name. -/
theorem tables_agree : (scalarNames ++ [c!"dict"]).all scalarFacts = true ∧ isSqlImport c!"Enum" = true :=
  Sql.tables_agree

/-! ## (ii) round trip -/

/-- **(ii), one column.** On the domain, emitting a parameter as `Column('name', …)` and parsing that call gives the
    name back together with the normal form `normSql`: the type string and the default are those of the parameter
    (`normVal`: `None` is written `NoneStr`, a quoted string loses its quotes), the description is `normDoc`. -/
theorem column_round_trip (name : Str) (p : Param) (hd : inDomain name p = true) :
    andThen (paramToColumn true (name, p)) columnToParam = .ok (name, normSql name p) :=
  column_round_trip_aux name p hd

/-- non-vacuity: an `Optional[Literal]` foreign key with a `None` default is in the domain, and its round trip is -/
example : let p : Param := ⟨some (some (.optional (.literal [c!"a", c!"b"]))), some c!"[FK(t.id)] the kind.", some (.str NoneStr), none, none, none⟩
    inDomain c!"kind" p = true ∧
    andThen (paramToColumn true (c!"kind", p)) columnToParam
      = .ok (c!"kind", ⟨some c!"Optional[Literal['a', 'b']]", none, some c!"[FK(t.id)] the kind.", some (.str NoneStr), none, none, none⟩) := by decide

/-- `repr` of Enum members as the parser writes them into `Literal[…]` (CPython's quote choice and escapes) -/
example : Sql.reprStr c!"don't care" = c!"\"don't care\"" ∧ Sql.reprStr c!"say \"hi\"" = c!"'say \"hi\"'" ∧
    Sql.reprStr c!"both ' and \"" = c!"'both \\' and \"'" ∧ Sql.reprStr c!"back\\slash" = c!"'back\\\\slash'" ∧
    andThen (paramToColumn true (c!"kind", { typ := some (some (.literal [c!"don't care", c!"no"])) })) columnToParam
      = .ok (c!"kind", { typ := some c!"Literal[\"don't care\", 'no']" }) := by decide

/-- what the view of the property sees of `normSql`: name, rendered type and (plain) default are untouched -/
theorem round_trip_view (name : Str) (p : Param) (t : Typ) (ht : p.typ = some (some t)) :
    (normSql name p).typ = some t.render ∧ (normSql name p).default = p.default.map normVal ∧
    (normSql name p).doc = normDoc name p.doc p.default.isSome := by
  unfold normSql; rw [ht]; exact ⟨rfl, rfl, rfl⟩

/-- a default that is not Python `None` and not a string wrapped in quotes comes back unchanged -/
theorem normVal_plain (v : Val) (h1 : v ≠ .none) (h2 : ∀ s, v = .str s → setValueStr s = s) : normVal v = v := by
  cases v with
  | none => exact absurd rfl h1
  | str s => simp [normVal, h2 s rfl]
  | bool _ => rfl
  | int _ => rfl
  | float _ => rfl
  | code _ => rfl

/-- **descriptions.** A clean description (`CleanText`: not empty, no leading blank, no trailing dot, not wrapped in
    quotes) behind no marker, `[PK] ` or `[FK(target)] ` comes back verbatim, with one `.` appended iff the column has
    a default and its name does not end in `kwargs`: the marker is folded back exactly. -/
theorem normDoc_clean (name : Str) (m : Marker) (t : Str) (hasDefault : Bool) (ht : CleanText t) (hm : MarkerOk m t) :
    normDoc name (some (renderDoc m t)) hasDefault =
      some (renderDoc m t ++ (if hasDefault && !endsWith name c!"kwargs" then ['.'] else [])) :=
  normDoc_clean_aux name m t hasDefault ht hm

/-- non-vacuity of `normDoc_clean` -/
example : CleanText c!"the owner" ∧ MarkerOk (.fk c!"user.id") c!"the owner" :=
  ⟨⟨by decide, by decide, by decide, by decide⟩, by decide, by decide⟩

/-- **(ii), lifted to interfaces.** For every interface of the domain (distinct column names, a table name
    `set_value` leaves alone) and both values of `force_pk_id`, the `Table` emission parses back to the table name
    and, column by column and in order, the normal form of `ensurePK force params`. -/
theorem columns_round_trip (force : Bool) (ir : IR) (hdom : ∀ kv ∈ ir.params, inDomain kv.1 kv.2 = true)
    (hnd : (keys ir.params).Nodup) (hname : setValueStr ir.name = ir.name) (hne : ir.name ≠ []) :
    andThen (emitTable force ir) parseTable =
      .ok { name := ir.name, params := (ensurePK force ir.params).map (fun kv => (kv.1, normSql kv.1 kv.2)) } :=
  table_round_trip force ir hdom hnd hname hne

/-- … and so do the class and the hybrid emission (by `variants_agree`) -/
theorem all_variants_round_trip (force : Bool) (ir : IR) (hdom : ∀ kv ∈ ir.params, inDomain kv.1 kv.2 = true)
    (hnd : (keys ir.params).Nodup) (hk : plainNames (keys ir.params)) (hname : setValueStr ir.name = ir.name) (hne : ir.name ≠ []) :
    andThen (emitClass force ir) parseClass =
      .ok { name := ir.name, params := (ensurePK force ir.params).map (fun kv => (kv.1, normSql kv.1 kv.2)) } ∧
    andThen (emitHybrid force ir) parseClass =
      .ok { name := ir.name, params := (ensurePK force ir.params).map (fun kv => (kv.1, normSql kv.1 kv.2)) } := by
  have h := variants_agree_aux force ir hk hname hne
  rw [h.1, h.2]
  exact ⟨table_round_trip force ir hdom hnd hname hne, table_round_trip force ir hdom hnd hname hne⟩

/-- non-vacuity of the lifted round trip (two columns, the candidate rule picks `dataset_name`) -/
example : andThen (emitTable false ⟨c!"Foo", [(c!"dataset_name", ⟨some (some (.name c!"str")), some c!"the name", some (.str c!"mnist"), none, none, none⟩),
                                              (c!"n", { typ := some (some (.optional (.name c!"int"))) })], c!"Summary line.", false, false⟩) parseTable =
    .ok ⟨c!"Foo", [(c!"dataset_name", ⟨some c!"str", some c!"String", some c!"[PK] the name.", some (.str c!"mnist"), none, none, none⟩),
                   (c!"n", { typ := some c!"Optional[int]", xSqlType := some c!"Integer" })]⟩ := by decide

/-- **the normalisation `ensurePK`.** Unless an unmarked column is called `id` while neither a `[PK]` marker nor the
    candidate rule applies (`KeepsColumns`), `ensure_has_primary_key` returns the parameters unchanged, or with the
    description of one of them prefixed by `[PK]`, or with the invented `id` column appended at the end. -/
theorem ensurePK_keeps_columns (force : Bool) (ps : Params) (h : KeepsColumns force ps) :
    ensurePK force ps = ps ∨ (∃ c, c ∈ keys ps ∧ ensurePK force ps = modify ps c markPK) ∨
      (c!"id" ∉ keys ps ∧ ensurePK force ps = ps ++ [(c!"id", idParam)]) :=
  ensurePK_keeps_aux force ps h

/-- in every case the names and their order survive: the keys are the old keys, possibly followed by `id` -/
theorem ensurePK_names (force : Bool) (ps : Params) :
    keys (ensurePK force ps) = keys ps ∨ (c!"id" ∉ keys ps ∧ keys (ensurePK force ps) = keys ps ++ [c!"id"]) :=
  ensurePK_keys force ps

/-! ### where the unchanged code deviates (negations on witnesses; each is a known finding replayed on the real code) -/

/-- **negation.** An existing column `id: str` ("the id") is *replaced* by the invented `id: int` primary key when
    `force_pk_id` is set (the branch that would mark the existing column is dead, see `idBranch`): type and
    description of the input column are lost. -/
theorem ensurePK_replaces_id :
    ensurePK true [(c!"id", { typ := some (some (.name c!"str")), doc := some c!"the id" })] = [(c!"id", idParam)] ∧
    ensurePK false [(c!"id", { typ := some (some (.name c!"str")), doc := some c!"the id" }), (c!"dataset_name", {})]
      = [(c!"id", idParam), (c!"dataset_name", {})] := by decide

/-- **negation.** A bare `dict` column comes back as `Optional[dict]` (`JSON` maps to `Optional[dict]` in
    `column_type2typ`), so the round trip of a `dict` parameter is *not* its normal form. -/
theorem dict_becomes_optional :
    andThen (paramToColumn true (c!"cfg", { typ := some (some (.name c!"dict")) })) columnToParam
      = .ok (c!"cfg", { typ := some c!"Optional[dict]", xSqlType := some c!"JSON" }) ∧
    andThen (paramToColumn true (c!"cfg", { typ := some (some (.name c!"dict")) })) columnToParam
      ≠ .ok (c!"cfg", normSql c!"cfg" { typ := some (some (.name c!"dict")) }) := by decide

/-- **negation.** A `Literal` with one member is not turned into an `Enum`: the type string itself is emitted as a
    column type name followed by `LargeBinary`, and the parser reads no type at all from that call. -/
theorem single_literal_lost :
    paramToColumn true (c!"k", { typ := some (some (.literal [c!"a"])) })
      = .ok { args := [.const (.str c!"k"), .name c!"Literal['a']", .name c!"LargeBinary"], kws := [] } ∧
    andThen (paramToColumn true (c!"k", { typ := some (some (.literal [c!"a"])) })) columnToParam
      = .ok (c!"k", { typ := none, noneKey := some (.str c!"LargeBinary") }) := by decide

/-- the property's own domain is wider than `inDomain`: it has the bare `dict` and one-member `Literal`s too -/
def typInProperty : Typ → Bool
  | .optional (.name s) => (scalarNames ++ [c!"dict"]).contains s
  | .optional (.literal ms) => decide (1 ≤ ms.length)
  | .name s => (scalarNames ++ [c!"dict"]).contains s
  | .literal ms => decide (1 ≤ ms.length)
  | _ => false

def inPropertyDomain (name : Str) (p : Param) : Bool :=
  match p.typ with
  | some (some t) =>
    typInProperty t && setValueStr name == name && p.xSqlType.isNone && p.itemsType.isNone && p.serverDefault.isNone &&
    (!isOptional t || !hasRealDefault p)
  | _ => false

/-- **The full statement of C05 about the model**: on the property's own domain every emission has one primary key,
    the three variants parse to the same thing, the parse is the normal form of the input, and the primary-key
    normalisation only marks or adds a column. -/
def C05_full : Prop :=
  ∀ (force : Bool) (ir : IR), (∀ kv ∈ ir.params, inPropertyDomain kv.1 kv.2 = true) → (keys ir.params).Nodup →
    markerCount ir.params ≤ 1 → plainNames (keys ir.params) → setValueStr ir.name = ir.name → ir.name ≠ [] →
    (∀ a, emitTable force ir = .ok a → countPK a.2.cols = 1) ∧
    andThen (emitClass force ir) parseClass = andThen (emitTable force ir) parseTable ∧
    andThen (emitHybrid force ir) parseClass = andThen (emitTable force ir) parseTable ∧
    andThen (emitTable force ir) parseTable =
      .ok { name := ir.name, params := (ensurePK force ir.params).map (fun kv => (kv.1, normSql kv.1 kv.2)) } ∧
    (ensurePK force ir.params = ir.params ∨ (∃ c, c ∈ keys ir.params ∧ ensurePK force ir.params = modify ir.params c markPK) ∨
      (c!"id" ∉ keys ir.params ∧ ensurePK force ir.params = ir.params ++ [(c!"id", idParam)]))

/-- **negation of the full statement** (witness: one `dict` column called `dataset_name`).  What *is* proved:
    the first three conjuncts for every interface (`one_pk_table`, `variants_agree`), the fourth on `inDomain`
    (`columns_round_trip`), the fifth under `KeepsColumns` (`ensurePK_keeps_columns`). -/
theorem C05_full_false : ¬ C05_full := by
  intro h
  have := (h false { name := c!"Foo", params := [(c!"dataset_name", { typ := some (some (.name c!"dict")) })] }
    (by decide) (by decide) (by decide) (by decide) (by decide) (by decide)).2.2.2.1
  revert this
  decide

/-! ## column names -/

/-- **column names are opaque.** For the model a column name is an arbitrary string (any code points).  The only
    modelled steps that look inside a name are: the primary-key candidate rule `isCandidate`
    (`"_name" in k or "_id" in k or "id_" in k or k == "id"`, substring tests), `endsWith name "kwargs"` (no `.` is
    appended to such a column's description), `set_value`'s quote stripping `setValueStr`, and the two class
    attributes the class parser reserves (`plainNames`: `__tablename__`, `__table__`).  This theorem discharges the
    domain hypothesis `setValueStr name = name` for every name that does not start with a quote character — in
    particular for every Python identifier, ASCII or not (`größe`, `名前`, `class_`, `metadata`, `__x`). -/
theorem names_untouched (name : Str) (h1 : name.head? ≠ some '"') (h2 : name.head? ≠ some '\'') :
    setValueStr name = name := by
  unfold setValueStr
  have e1 : (name.head? == some '"') = false := by simpa using h1
  have e2 : (name.head? == some '\'') = false := by simpa using h2
  simp [e1, e2]

/-- non-vacuity with non-ASCII identifiers: the candidate rule is the same substring test, the round trip keeps the name -/
example : isCandidate c!"größen_id" = true ∧ isCandidate c!"größe" = false ∧ isCandidate c!"名前_id" = true ∧
    inDomain c!"größe" { typ := some (some (.name c!"int")) } = true ∧
    andThen (paramToColumn true (c!"größe", { typ := some (some (.name c!"int")) })) columnToParam
      = .ok (c!"größe", { typ := some c!"int", xSqlType := some c!"Integer" }) := by decide

/-! ## the header description (the interface's own `doc`) -/

/-- the `Table(…)` bound inside a hybrid class body -/
def hybridTable (cls : ClassDef) : Option TableCall :=
  cls.body.findSome? (fun s => match s with
    | .assignTable _ t => some t
    | _ => none)

/-- **header description.** For every interface and both values of `force_pk_id`: the `Table` emission hands
    `doc.lstrip() + ("\n\n" if returns else "")` to the docstring emitter (and attempts a `comment=` iff `doc` is not
    empty); the hybrid emission's inner table carries the same text and its class docstring is the class emission's;
    the class emission hands over `doc` itself.  So without a `returns` entry **all three variants carry the
    description, or none does, and the texts agree up to leading whitespace** — the docstring emitter/parser that
    render and read it are outside the model; the harness feeds these texts to the real docstring emitter and
    compares with the emitted `comment=` / docstring, and checks on the real parses that the three header docs agree. -/
theorem header_text_agrees (force : Bool) (ir : IR) (tbl : Str × TableCall) (cls hyb : ClassDef)
    (hT : emitTable force ir = .ok tbl) (hC : emitClass force ir = .ok cls) (hH : emitHybrid force ir = .ok hyb) :
    tbl.2.headerText = tableHeaderText ir ∧
    (hybridTable hyb).map (·.headerText) = some tbl.2.headerText ∧
    cls.docText = (if classHasDoc ir then some ir.doc else none) ∧
    hyb.docText = cls.docText ∧
    (ir.hasReturns = false → ir.returnsHasDoc = false → tbl.2.headerText = cls.docText.map lstrip) := by
  unfold emitTable emitTableNamed at hT
  unfold emitClass headerStmts at hC
  unfold emitHybrid emitTableNamed headerStmts at hH
  cases hc : emitCols true force ir.params with
  | error e => rw [hc] at hT; cases hT
  | ok cols =>
    cases hc' : emitCols false force ir.params with
    | error e => rw [hc'] at hC; cases hC
    | ok cols' =>
      rw [hc] at hT hH
      rw [hc'] at hC
      cases hT; cases hC; cases hH
      refine ⟨rfl, ?_, ?_, ?_, ?_⟩
      · unfold hybridTable
        cases classHasDoc ir <;> simp
      · unfold ClassDef.docText
        cases classHasDoc ir <;> simp
      · unfold ClassDef.docText
        cases classHasDoc ir <;> simp
      · intro h1 h2
        unfold ClassDef.docText tableHeaderText classHasDoc
        rw [h1, h2]
        cases hd : ir.doc.isEmpty <;> simp

/-- non-vacuity of `header_text_agrees`: a described interface without `returns` — all three emissions carry it -/
example : (emitTable false { name := c!"Foo", params := [], doc := c!"  Summary line." }).map (·.2.headerText) = .ok (some c!"Summary line.") ∧
    (emitClass false { name := c!"Foo", params := [], doc := c!"  Summary line." }).map (·.docText) = .ok (some c!"  Summary line.") ∧
    (emitHybrid false { name := c!"Foo", params := [], doc := c!"  Summary line." }).map (fun c => (hybridTable c).map (·.headerText))
      = .ok (some (some c!"Summary line.")) := by decide

/-- the defect repaired by the `fix:` commit "sqlalchemy_table emit dropped the table's doc …": the unparenthesised
    conditional `doc.lstrip() + "\n\n" if returns else ""` handed the *empty* text to the docstring emitter whenever the
    interface had no `returns` entry, so `Table` and hybrid emissions lost the description the class emission kept. -/
theorem header_text_before_fix :
    tableHeaderTextBeforeFix { name := c!"Foo", params := [], doc := c!"Summary line." } = some [] ∧
    tableHeaderText { name := c!"Foo", params := [], doc := c!"Summary line." } = some c!"Summary line." := by decide

/-! ## (iii) the three variants agree -/

/-- **(iii).** For every interface whose columns are not called `__tablename__` / `__table__` (any types, any
    descriptions, in or out of the domain, failing or not) and both values of `force_pk_id`: parsing the class
    emission, parsing the hybrid emission and parsing the `Table` emission give the same result (or fail alike). -/
theorem variants_agree (force : Bool) (ir : IR) (hk : plainNames (keys ir.params))
    (hname : setValueStr ir.name = ir.name) (hne : ir.name ≠ []) :
    andThen (emitClass force ir) parseClass = andThen (emitTable force ir) parseTable ∧
    andThen (emitHybrid force ir) parseClass = andThen (emitTable force ir) parseTable :=
  variants_agree_aux force ir hk hname hne

/-- non-vacuity of (iii): a successful three-way agreement with an out-of-domain column, `_id` and `_rev` as columns -/
example : andThen (emitClass true ⟨c!"T", [(c!"_id", { typ := some (some (.name c!"str")) }), (c!"_rev", { doc := some c!"rev." })], c!"A table.", false, false⟩) parseClass
    = .ok ⟨c!"T", [(c!"_id", { typ := some c!"str", xSqlType := some c!"String" }),
                   (c!"_rev", { typ := some c!"BlobProperty", xSqlType := some c!"LargeBinary", doc := some c!"rev" }),
                   (c!"id", ⟨some c!"int", some c!"Integer", some c!"[PK]", none, some (.code c!"Identity()"), none, none⟩)]⟩ := by decide

/-- **class ↔ Table normalisation.** `sqlalchemy_table_to_class` followed by `parse.sqlalchemy` is `parse` of the table
    itself, for every table whose columns are called by plain names `set_value` leaves alone. -/
theorem table_to_class_round_trip (target t m : Str) (cols : List (Str × ColumnCall)) (hplain : plainNames (cols.map (·.1)))
    (hn : ∀ kc ∈ cols, setValueStr kc.1 = kc.1) (ht : setValueStr t = t) :
    andThen (tableToClass (target, { tname := t, metaName := m, cols := cols.map (fun kc => mergeName kc.1 kc.2) })) parseClass =
      parseTableCall { tname := t, metaName := m, cols := cols.map (fun kc => mergeName kc.1 kc.2) } :=
  tableToClass_parse target t m cols hplain hn ht

/-- **which class-body statements are columns.** Every assignment except `__tablename__ = …` is handed to the column
    parser — names starting with an underscore (`_id`, `_rev`, `__x`) are columns like any other. -/
theorem underscore_names_are_columns :
    (∀ s : Stmt, isColumnStmt s = true ↔ ∃ t, s.target? = some t ∧ t ≠ c!"__tablename__") ∧
    parseClass ⟨c!"T", [.docstring c!"Doc.", .assignStr c!"__tablename__" c!"t",
                        .assignCol c!"_id" ⟨[.name c!"Integer"], [(c!"primary_key", .bool true)]⟩,
                        .assignCol c!"__x" ⟨[.name c!"String"], []⟩, .funcDef c!"__repr__"]⟩
      = .ok ⟨c!"t", [(c!"_id", { typ := some c!"int", xSqlType := some c!"Integer", doc := some c!"[PK]" }),
                     (c!"__x", { typ := some c!"str", xSqlType := some c!"String" })]⟩ := by
  refine ⟨?_, by decide⟩
  intro s
  unfold isColumnStmt
  cases h : s.target? with
  | none => simp
  | some t => simp

end C05
