import CddVerif.Proofs.DocRoundTripDomain
/-!
# C01 — whole-docstring round trip, ReST style, on the model

`C01.C01_full` (Properties/C01.lean) is only a definition there.  Here the whole-docstring statement is **proved** for
the model (`Doc.emit … .rest`, `Doc.parseRest` of `Model/Doc.lean`) for every interface in the explicit, decidable domain
`C01Whole.InDomain` (`Proofs/DocRoundTripDomain.lean`; a Boolean check evaluated by `decide`): any number of parameters,
texts of any length, all three flags, with or without header and return entry.

The strongest statement is `rest_roundtrip_full`: the parser returns **exactly** the interface `DocRT.expIR ir et edd`,

* header: `ir.doc`;
* every parameter, same name, same position, with
  * `doc`     = `DocRT.docText p edd` — the description itself, or, when `emit_default_doc` and a default exists,
                `baseOf d ++ " Defaults to " ++ renderVal v` (`baseOf d` = `d` with a full stop added unless it ends in `.`/`,`);
  * `default` = the default when `emit_default_doc`, else none (an `edd=False` docstring does not carry defaults);
  * `typ`     = the declared type when `emit_types` and there is one, else the type name of the carried default
                (`int` / `bool` / `float`), else none;
* the return entry likewise (`DocRT.expRet`; no type is inferred for it).

`rest_roundtrip_names`, `_docs`, `_defaults`, `_types`, `_header`, `_returns` are the projections asked for one by one, and
`rest_roundtrip_exact` is the identity `parse (emit ir) = ir` on the part of the domain where nothing has to be inferred.

## The domain

`InDomain ir` (`inDomainB ir = true`, `Proofs/DocRoundTripDomain.lean`):

* **header** (any number of lines): empty, or {no blank at either end, no ReST field token
  `:param :cvar :ivar :var :type :raises :return :rtype` inside};
* **names**: pairwise distinct, each {no `:`, no line break, ≠ `return_type`, no leading `*`, not ending in `kwargs`};
* **every entry** (each parameter and the return entry, if any) has
  * a **description**: non-empty, one line, no ReST field token inside, no blank at either end, no `Defaults`/`defaults`,
    none of the 8 announce phrases `DEFAULTS_TO_VARIANTS` (case-insensitively; neither bare nor after `(`), not starting
    with `Optional` or `(Optional)` (the clause `Doc.NoEarly` of `C01.GoodBase` — the emitted ` Defaults to ` is the first
    `defaults to ` of the completed line — is *derived*: `noEarly_of_noAnnounce`);
  * a **type** that is absent, or {non-empty, one line, no `:`, no backtick, not ending in `, optional`};
  * a **default** that is absent, or {an integer of either sign, a boolean, or a non-negative decimal `<digits>.<digits>`,
    and the declared type — if any — is not one of `int float complex str bool` other than the default's own}.

Colons and parentheses as such are allowed in descriptions and headers.

## Which restrictions are essential

**Essential** — each has a counterexample below (`…_needed`, evaluated on the model by the kernel), and every one of them
was also replayed on the real `cdd.docstring.emit.docstring` / `cdd.docstring.parse.docstring`, which loses the same
information (or, where the model abstains, does what is said in brackets):
distinct names (`dup_names_needed`; on the model only — the Python IR is a dict);
name ≠ `return_type` (`return_type_name_needed`: the parameter comes back as the return entry);
no `:` in a name (`colon_in_name_needed`: the name is cut);
no `kwargs` suffix, no leading `*` (`kwargs_name_needed`: the model abstains [real: type wrapped in `Optional[…]`; `*args`
comes back as `args` with type `tuple` and default `()`]);
description not starting with `Optional` / `(Optional)` (`optional_doc_needed`, `paren_announce_needed`: the declared type
becomes `Optional[int]`);
type not ending in `, optional` (`optional_suffix_needed`), non-empty and not made of backticks (`type_shape_needed`);
declared simple type = the default's type (`compat_needed`: `5` under `bool` comes back as `True` [under `float` the real
code answers `5.0`, `2.5` under `int` gives `2`; the model abstains on these two]);
no announce phrase in a description (`announce_needed`: a default and a type appear from nowhere [real code, on
"x defaults to 7 here": `SyntaxError`]; `paren_announce_needed`: after `(` the model abstains [real: default `"()"`]);
no `Defaults`/`defaults` when a default is to be carried (`defaults_word_needed`: the prose is not appended, the default
is lost);
no blank at either end of a description (`trailing_blank_needed`: comes back stripped) or of the header
(`header_blank_needed`; a leading blank re-indents the whole docstring, the model abstains [real: header comes back
stripped]);
one-line descriptions (`two_line_doc_needed`: the lines come back joined by a blank);
no ReST field token inside a description or header (`token_in_doc_needed`: the model abstains [real: the entry is split
in two]);
a description for every parameter when types are not emitted (`docless_needed`: no trace is left in the docstring).

**Proof convenience only** (the round trip also holds outside; replayed on model and real code): *no colon* and
*no backtick* in types (what matters is no field token and no run of three backticks); entries *must* have a description
(a type-only entry round-trips when types are emitted); defaults restricted to integers, booleans and non-negative
decimals (negative decimals round-trip too; strings have a value-level theorem in Properties/C01.lean that is not lifted
here — an unquoted string under an inferred `str` type makes the model abstain).

## Relation to the real code

The theorems are about the model.  The model is tied to the real code by the differential check of `./check C01` on the
generated domain D01 (DESIGN.md §4), which excludes descriptions containing trigger words of `parse_adhoc_doc_for_typ`:
the model's `setNameAndType` does not run that prose inference.  Observed on the real code: `"number of epochs"` →
type `int`, `"whether to do it"` → `bool` although no type was emitted, and `"a string naming it"` under the declared type
`int` comes back as `str` (the prose overrides the declaration); the model, and hence these theorems, predict no type /
`int`.  On all in-domain interfaces replayed without such words, real code, model and `expIR` agree.
-/
namespace C01Whole
open Py Doc DocRT

/-- `cs!"abc"` = `['a','b','c']` (character-list literal, evaluates under `decide`) -/
local macro:max "cs!" s:str : term => do
  let cs := s.getString.toList
  let elems := cs.map (fun c => Lean.Syntax.mkCharLit c)
  `(([$(elems.toArray),*] : List Char))

/-! ### the theorems -/

/-- **Whole-docstring round trip, full strength**: on the domain, the parser returns exactly `expIR ir et edd`. -/
theorem rest_roundtrip_full (ir : IR) (et ww edd : Bool) (h : InDomain ir) (s : Str)
    (he : emit ir .rest et ww edd = .ok s) : parseRest s edd = .ok (expIR ir et edd) :=
  parse_emitted ir et ww edd s (inDomain_sound ir h) he

/-- **1. names and order** (this is `C01.C01_full` restricted to the domain) -/
theorem rest_roundtrip_names (ir : IR) (et ww edd : Bool) (h : InDomain ir) (s : Str)
    (he : emit ir .rest et ww edd = .ok s) :
    ∃ ir', parseRest s edd = .ok ir' ∧ ir'.params.map (·.1) = ir.params.map (·.1) := by
  refine ⟨_, rest_roundtrip_full ir et ww edd h s he, ?_⟩
  simp [expIR, List.map_map]

/-- **2. descriptions**, the precise relation: each parsed description is the emitted one, `docText p edd` — the original
    description, with `" Defaults to <v>"` appended (after a full stop, unless it ends in `.` or `,`) exactly when
    `emit_default_doc` is on and the parameter has a default. -/
theorem rest_roundtrip_docs (ir : IR) (et ww edd : Bool) (h : InDomain ir) (s : Str)
    (he : emit ir .rest et ww edd = .ok s) :
    ∃ ir', parseRest s edd = .ok ir' ∧ ir'.params.map (·.1) = ir.params.map (·.1)
      ∧ ir'.params.map (fun np => np.2.doc) = ir.params.map (fun np => some (docText np.2 edd)) := by
  refine ⟨_, rest_roundtrip_full ir et ww edd h s he, ?_, ?_⟩
  · simp [expIR, List.map_map]
  · simp only [expIR, List.map_map]; rfl

/-- **2′. descriptions unchanged** when nothing is appended: `emit_default_doc=False`, or no parameter has a default. -/
theorem rest_roundtrip_docs_same (ir : IR) (et ww edd : Bool) (h : InDomain ir) (s : Str)
    (he : emit ir .rest et ww edd = .ok s) (hno : edd = false ∨ ∀ np ∈ ir.params, np.2.default = Option.none) :
    ∃ ir', parseRest s edd = .ok ir' ∧ ir'.params.map (fun np => np.2.doc) = ir.params.map (fun np => np.2.doc) := by
  refine ⟨_, rest_roundtrip_full ir et ww edd h s he, ?_⟩
  simp only [expIR, List.map_map]
  apply List.map_congr_left
  intro np hnp
  have g := (inDomain_sound ir h).entries np hnp
  show some (docText np.2 edd) = np.2.doc
  unfold docText
  cases hd : np.2.doc with
  | none => exact absurd hd g.docSome
  | some d =>
    have : (if edd then np.2.default else Option.none) = Option.none := by
      rcases hno with rfl | hno
      · rfl
      · rw [hno np hnp]; cases edd <;> rfl
    simp only [this]

/-- **3a. defaults**: carried (as a value of the same kind: an `int` stays an `int`, negative stays negative, a `bool` a
    `bool`, a `float` a `float` with the same `repr` text) when `emit_default_doc`, absent otherwise. -/
theorem rest_roundtrip_defaults (ir : IR) (et ww edd : Bool) (h : InDomain ir) (s : Str)
    (he : emit ir .rest et ww edd = .ok s) :
    ∃ ir', parseRest s edd = .ok ir'
      ∧ ir'.params.map (fun np => np.2.default) = ir.params.map (fun np => if edd then np.2.default else Option.none) := by
  refine ⟨_, rest_roundtrip_full ir et ww edd h s he, ?_⟩
  simp only [expIR, List.map_map]; rfl

/-- **3b. types**: the declared type when types are emitted and there is one; otherwise the type name of the carried
    default (`tyName`: `int`, `bool`, `float`), otherwise none. -/
theorem rest_roundtrip_types (ir : IR) (et ww edd : Bool) (h : InDomain ir) (s : Str)
    (he : emit ir .rest et ww edd = .ok s) :
    ∃ ir', parseRest s edd = .ok ir'
      ∧ ir'.params.map (fun np => np.2.typ)
        = ir.params.map (fun np => if et && truthy np.2.typ then np.2.typ
                                   else (if edd then np.2.default else Option.none).map tyName) := by
  refine ⟨_, rest_roundtrip_full ir et ww edd h s he, ?_⟩
  simp only [expIR, List.map_map]; rfl

/-- **3b′. declared types come back unchanged** when types are emitted and every parameter declares one. -/
theorem rest_roundtrip_types_same (ir : IR) (ww edd : Bool) (h : InDomain ir) (s : Str)
    (he : emit ir .rest true ww edd = .ok s) (hty : ∀ np ∈ ir.params, np.2.typ ≠ Option.none) :
    ∃ ir', parseRest s edd = .ok ir' ∧ ir'.params.map (fun np => np.2.typ) = ir.params.map (fun np => np.2.typ) := by
  refine ⟨_, rest_roundtrip_full ir true ww edd h s he, ?_⟩
  simp only [expIR, List.map_map]
  apply List.map_congr_left
  intro np hnp
  have g := (inDomain_sound ir h).entries np hnp
  show (expParam true edd np.2).typ = np.2.typ
  cases ht : np.2.typ with
  | none => exact absurd ht (hty np hnp)
  | some t =>
    have hne := (g.typ t ht).ne
    have : truthy (some t) = true := by
      cases t with
      | nil => exact absurd rfl hne
      | cons _ _ => rfl
    simp only [expParam, ht, this, Bool.and_self, if_true]

/-- **4a. header** -/
theorem rest_roundtrip_header (ir : IR) (et ww edd : Bool) (h : InDomain ir) (s : Str)
    (he : emit ir .rest et ww edd = .ok s) : ∃ ir', parseRest s edd = .ok ir' ∧ ir'.doc = ir.doc :=
  ⟨_, rest_roundtrip_full ir et ww edd h s he, rfl⟩

/-- **4b. return entry**: present iff it was, with the emitted description, the declared type iff types are emitted
    (none is inferred), the default iff `emit_default_doc`. -/
theorem rest_roundtrip_returns (ir : IR) (et ww edd : Bool) (h : InDomain ir) (s : Str)
    (he : emit ir .rest et ww edd = .ok s) :
    ∃ ir', parseRest s edd = .ok ir' ∧ ir'.returns = ir.returns.map (expRet et edd) :=
  ⟨_, rest_roundtrip_full ir et ww edd h s he, rfl⟩

/-- **Exact identity** `parse (emit ir) = ir` (equality of whole interfaces) where nothing has to be inferred: types are
    emitted and no entry has a default. -/
theorem rest_roundtrip_exact (ir : IR) (ww edd : Bool) (h : InDomain ir) (s : Str)
    (he : emit ir .rest true ww edd = .ok s) (hnd : ∀ np ∈ ir.params, np.2.default = Option.none)
    (hrd : ∀ rp, ir.returns = some rp → rp.default = Option.none) : parseRest s edd = .ok ir := by
  rw [rest_roundtrip_full ir true ww edd h s he]
  have g := inDomain_sound ir h
  have key : ∀ p : Param, GoodEntry p → p.default = Option.none → expParam true edd p = p ∧ expRet true edd p = p := by
    intro p gp hd
    obtain ⟨typ, doc, dflt⟩ := p
    simp only at hd
    subst hd
    have hdf : dfltOf { typ := typ, doc := doc, default := Option.none } edd = Option.none := by cases edd <;> rfl
    have hdoc : some (docText { typ := typ, doc := doc, default := Option.none } edd) = doc := by
      cases doc with
      | none => exact absurd rfl gp.docSome
      | some d =>
        unfold docText
        have : (if edd then (Option.none : Option Default) else Option.none) = Option.none := by cases edd <;> rfl
        simp only [this]
    have htyp : (if (true && truthy typ) = true then typ else Option.none) = typ := by
      cases typ with
      | none => rfl
      | some t =>
        have hne := (gp.typ t rfl).ne
        cases t with
        | nil => exact absurd rfl hne
        | cons _ _ => rfl
    constructor
    · simp only [expParam, hdf, Option.map_none, htyp, hdoc]
    · simp only [expRet, hdf, htyp, hdoc]
  congr 1
  obtain ⟨doc, params, returns⟩ := ir
  simp only [expIR, IR.mk.injEq, true_and]
  constructor
  · apply map_id_of
    intro np hnp
    have := (key np.2 (g.entries np hnp) (hnd np hnp)).1
    show (np.1, expParam true edd np.2) = np
    rw [this]
  · cases returns with
    | none => rfl
    | some rp =>
      simp only [Option.map_some]
      rw [(key rp (g.ret rp rfl) (hrd rp rfl)).2]

/-! ### non-vacuity: a concrete interface in the domain on which `emit` answers -/

/-- header, five parameters (typed without default; typed `int` with default 10; untyped with default `True` and a
    description ending in a comma; untyped with default `0.9`; typed `Optional[int]` with default −3 and a description
    ending in a full stop),
    a colon and parentheses inside descriptions, and a typed return entry -/
def exIR : IR :=
  { doc := cs!"Train it.",
    params := [
      (cs!"lr", { typ := some cs!"float", doc := some cs!"learning rate: step size" }),
      (cs!"epochs", { typ := some cs!"int", doc := some cs!"how long", default := some (.int 10) }),
      (cs!"verbose", { doc := some cs!"print progress,", default := some (.bool true) }),
      (cs!"momentum", { doc := some cs!"beta", default := some (.float cs!"0.9") }),
      (cs!"offset", { typ := some cs!"Optional[int]", doc := some cs!"shift by this (in steps).", default := some (.int (-3)) })],
    returns := some { typ := some cs!"str", doc := some cs!"the result" } }

/-- the example is in the domain -/
example : InDomain exIR := by decide +kernel

set_option maxRecDepth 100000 in
/-- `emit` answers on it (all types and defaults emitted, word wrap on) -/
example : emit exIR .rest true true true = .ok cs!"Train it.\n\n:param lr: learning rate: step size\n:type lr: ```float```\n\n:param epochs: how long. Defaults to 10\n:type epochs: ```int```\n\n:param verbose: print progress, Defaults to True\n\n:param momentum: beta. Defaults to 0.9\n\n:param offset: shift by this (in steps). Defaults to -3\n:type offset: ```Optional[int]```\n\n:return: the result\n:rtype: ```str```\n" := by
  decide +kernel

/-- hence (instance of `rest_roundtrip_full`, not an evaluation): the parse result is `expIR exIR true true` -/
example : ∃ s, emit exIR .rest true true true = .ok s ∧ parseRest s true = .ok (expIR exIR true true) := by
  have he : ∃ s, emit exIR .rest true true true = .ok s := by
    cases h : emit exIR .rest true true true with
    | ok s => exact ⟨s, rfl⟩
    | outside w =>
      have : (match emit exIR .rest true true true with | .ok _ => true | .outside _ => false) = true := by decide +kernel
      rw [h] at this; cases this
  obtain ⟨s, hs⟩ := he
  exact ⟨s, hs, rest_roundtrip_full exIR true true true (by decide +kernel) s hs⟩

/-- the example without its defaults is in the domain of the exact identity -/
def exIR0 : IR := { exIR with params := exIR.params.map (fun np => (np.1, { np.2 with default := Option.none })) }
example : InDomain exIR0 ∧ (∀ np ∈ exIR0.params, np.2.default = Option.none)
    ∧ exIR0.returns.map (·.default) = some Option.none
    ∧ (match emit exIR0 .rest true true false with | .ok _ => true | .outside _ => false) = true := by
  refine ⟨by decide +kernel, by decide +kernel, by decide +kernel, by decide +kernel⟩

/-- an interface in which every parameter declares a type (hypothesis of `rest_roundtrip_types_same`) -/
def exIR1 : IR :=
  { doc := cs!"Scale: multiply (elementwise).",
    params := [
      (cs!"x", { typ := some cs!"np.ndarray", doc := some cs!"the input" }),
      (cs!"factor", { typ := some cs!"float", doc := some cs!"multiplier", default := some (.float cs!"2.0") }),
      (cs!"inplace", { typ := some cs!"bool", doc := some cs!"overwrite `x`.", default := some (.bool false) })] }
example : InDomain exIR1 ∧ (∀ np ∈ exIR1.params, np.2.typ ≠ Option.none)
    ∧ (match emit exIR1 .rest true true true with | .ok _ => true | .outside _ => false) = true := by
  refine ⟨by decide +kernel, by decide +kernel, by decide +kernel⟩

/-! ### the unrestricted statement is false of the model, and why each restriction is there

Each witness is an interface (outside the domain) on which `emit` answers and the parser does not give the
parameters back.  Evaluated on the model by the kernel. -/

/-- what the model answers for an interface: `none` when either side abstains -/
def roundTrip (ir : IR) (et ww edd : Bool) : Option IR :=
  match emit ir .rest et ww edd with
  | .outside _ => Option.none
  | .ok s => match parseRest s edd with
    | .outside _ => Option.none
    | .ok ir' => some ir'

/-- duplicate names collapse into one entry (the second description wins) -/
theorem dup_names_needed :
    roundTrip { params := [(cs!"a", { doc := some cs!"x" }), (cs!"a", { doc := some cs!"y" })] } true true true
      = some { params := [(cs!"a", { doc := some cs!"y" })] } := by decide +kernel

/-- a parameter called `return_type` is emitted as `:return:` and comes back as the return entry -/
theorem return_type_name_needed :
    roundTrip { params := [(cs!"return_type", { doc := some cs!"x" })] } true true true
      = some { params := [], returns := some { doc := some cs!"x" } } := by decide +kernel

/-- hence **`C01.C01_full` (all interfaces) is false of the model** -/
theorem C01_full_false : ¬ C01.C01_full := by
  intro h
  have he : emit { params := [(cs!"return_type", { doc := some cs!"x" })] } .rest true true true = .ok cs!":return: x\n" := by
    decide +kernel
  obtain ⟨ir', hp, hn⟩ := h _ true true true _ he
  have hp' : parseRest cs!":return: x\n" true = .ok { params := [], returns := some { doc := some cs!"x" } } := by decide +kernel
  rw [hp'] at hp
  cases hp
  revert hn; decide

/-- a description starting with `Optional` wraps the declared type -/
theorem optional_doc_needed :
    roundTrip { params := [(cs!"a", { typ := some cs!"int", doc := some cs!"Optional weight" })] } true true true
      = some { params := [(cs!"a", { typ := some cs!"Optional[int]", doc := some cs!"Optional weight" })] } := by decide +kernel

/-- a type ending in `, optional` is rewritten -/
theorem optional_suffix_needed :
    roundTrip { params := [(cs!"a", { typ := some cs!"int, optional", doc := some cs!"weight" })] } true true true
      = some { params := [(cs!"a", { typ := some cs!"Optional[int]", doc := some cs!"weight" })] } := by decide +kernel

/-- the integer 5 under the declared type `bool` comes back as `True` -/
theorem compat_needed :
    roundTrip { params := [(cs!"a", { typ := some cs!"bool", doc := some cs!"weight", default := some (.int 5) })] } true true true
      = some { params := [(cs!"a", { typ := some cs!"bool", doc := some cs!"weight. Defaults to 5", default := some (.bool true) })] } := by
  decide +kernel

/-- an announce phrase in a description produces a default (and a type) from nowhere -/
theorem announce_needed :
    roundTrip { params := [(cs!"a", { doc := some cs!"x defaults to 7" })] } true true true
      = some { params := [(cs!"a", { typ := some cs!"int", doc := some cs!"x defaults to 7", default := some (.int 7) })] } := by
  decide +kernel

/-- a parenthesised announce phrase: the model abstains (`extract_default`'s bracket handling is not modelled);
    a description starting with `(Optional)` wraps the declared type -/
theorem paren_announce_needed :
    roundTrip { params := [(cs!"a", { doc := some cs!"(defaults to 5) x" })] } true true true = Option.none
    ∧ roundTrip { params := [(cs!"a", { typ := some cs!"int", doc := some cs!"(Optional) weight" })] } true true true
      = some { params := [(cs!"a", { typ := some cs!"Optional[int]", doc := some cs!"(Optional) weight" })] } := by
  constructor <;> decide +kernel

/-- a description that mentions `defaults` gets no prose appended: the default is lost -/
theorem defaults_word_needed :
    roundTrip { params := [(cs!"a", { doc := some cs!"a defaults", default := some (.int 3) })] } true true true
      = some { params := [(cs!"a", { doc := some cs!"a defaults" })] } := by decide +kernel

/-- a trailing blank of a description is stripped (word wrap off; with word wrap on the model abstains) -/
theorem trailing_blank_needed :
    roundTrip { params := [(cs!"a", { doc := some cs!"size " })] } true false true
      = some { params := [(cs!"a", { doc := some cs!"size" })] } := by decide +kernel

/-- a trailing blank of the header is stripped; a leading blank re-indents the docstring and the model abstains -/
theorem header_blank_needed :
    roundTrip { doc := cs!"Header ", params := [(cs!"a", { doc := some cs!"x" })] } true true true
      = some { doc := cs!"Header", params := [(cs!"a", { doc := some cs!"x" })] }
    ∧ roundTrip { doc := cs!" Indented", params := [(cs!"a", { doc := some cs!"x" })] } true true true = Option.none := by
  constructor <;> decide +kernel

/-- a two-line description comes back joined by a blank -/
theorem two_line_doc_needed :
    roundTrip { params := [(cs!"a", { doc := some cs!"size\nmore" })] } true false true
      = some { params := [(cs!"a", { doc := some cs!"size more" })] } := by decide +kernel

/-- a ReST token inside a description (or header): the model abstains (the real parser splits the entry in two) -/
theorem token_in_doc_needed :
    roundTrip { params := [(cs!"a", { doc := some cs!"see :param b" })] } true true true = Option.none
    ∧ roundTrip { doc := cs!"Header:param", params := [(cs!"a", { doc := some cs!"x" })] } true true true = Option.none := by
  constructor <;> decide +kernel

/-- a colon in a *name* cuts the name -/
theorem colon_in_name_needed :
    roundTrip { params := [(cs!"a:b", { doc := some cs!"x" })] } true true true
      = some { params := [(cs!"a", { doc := some cs!"b: x" })] } := by decide +kernel

/-- `kwargs` / starred names: the model abstains -/
theorem kwargs_name_needed :
    roundTrip { params := [(cs!"a_kwargs", { doc := some cs!"more" })] } true true true = Option.none
    ∧ roundTrip { params := [(cs!"*args", { doc := some cs!"x" })] } true true true = Option.none := by
  constructor <;> decide +kernel

/-- a parameter without description leaves no trace when types are not emitted -/
theorem docless_needed :
    roundTrip { params := [(cs!"a", { typ := some cs!"int" }), (cs!"b", { doc := some cs!"bee" })] } false false true
      = some { params := [(cs!"b", { doc := some cs!"bee" })] } := by decide +kernel

/-- an empty type string is dropped by the emitter (`truthy`), a type of backticks only is emptied by the parser -/
theorem type_shape_needed :
    roundTrip { params := [(cs!"a", { typ := some cs!"", doc := some cs!"x" })] } true true true
      = some { params := [(cs!"a", { doc := some cs!"x" })] }
    ∧ roundTrip { params := [(cs!"a", { typ := some cs!"```", doc := some cs!"x" })] } true true true
      = some { params := [(cs!"a", { typ := some cs!"", doc := some cs!"x" })] } := by
  constructor <;> decide +kernel

end C01Whole
