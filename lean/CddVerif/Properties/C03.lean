/-!
# C03 — any chain of format conversions preserves the interface

The unbounded part of the statement — *any* sequence of formats, hence commutation of conversions — is an
induction over the list of formats.  It is proved here for an arbitrary family of hops, an arbitrary
observation `view` (names, order, types, defaults) and an arbitrary domain that is closed under hops and on
which each single hop preserves the view.  The single-hop premises are the round-trip properties C01/C02
(per format); on the real code they are evaluated for every format by the harness, after every hop of every
chain (all 155 chains of length ≤ 3, sampled longer ones).
-/
namespace C03

variable {Format IR V : Type}

/-- run a chain of conversions, left to right -/
def chain (hop : Format → IR → IR) (fs : List Format) (ir : IR) : IR := fs.foldl (fun x f => hop f x) ir

/-- **Chain theorem (any length):** if the domain `D` is closed under every hop and every hop preserves the view on `D`,
    then every chain of hops, of any length, preserves the view and stays in `D`. -/
theorem chain_preserves (hop : Format → IR → IR) (view : IR → V) (D : IR → Prop)
    (closed : ∀ f ir, D ir → D (hop f ir)) (single : ∀ f ir, D ir → view (hop f ir) = view ir) :
    ∀ (fs : List Format) (ir : IR), D ir → view (chain hop fs ir) = view ir ∧ D (chain hop fs ir) := by
  intro fs
  induction fs with
  | nil => intro ir h; exact ⟨rfl, h⟩
  | cons f fs ih =>
    intro ir h
    have h1 := closed f ir h
    have := ih (hop f ir) h1
    unfold chain at this ⊢
    simp only [List.foldl_cons]
    exact ⟨this.1.trans (single f ir h), this.2⟩

/-- **Commutation:** the result does not depend on which intermediate formats were visited. -/
theorem chains_commute (hop : Format → IR → IR) (view : IR → V) (D : IR → Prop)
    (closed : ∀ f ir, D ir → D (hop f ir)) (single : ∀ f ir, D ir → view (hop f ir) = view ir)
    (fs gs : List Format) (ir : IR) (h : D ir) : view (chain hop fs ir) = view (chain hop gs ir) := by
  rw [(chain_preserves hop view D closed single fs ir h).1, (chain_preserves hop view D closed single gs ir h).1]

/-- chains compose: converting through `fs` and then through `gs` is the chain `fs ++ gs` -/
theorem chain_append (hop : Format → IR → IR) (fs gs : List Format) (ir : IR) :
    chain hop (fs ++ gs) ir = chain hop gs (chain hop fs ir) := by
  unfold chain; rw [List.foldl_append]

/-- the premises are necessary: one hop that changes the view breaks every chain through it (so a single-format
    finding of C01/C02 is a finding of C03 for every chain visiting that format first) -/
theorem broken_hop_breaks_chain (hop : Format → IR → IR) (view : IR → V) (D : IR → Prop)
    (closed : ∀ f ir, D ir → D (hop f ir)) (single : ∀ f ir, D ir → view (hop f ir) = view ir)
    (bad : Format → IR → IR) (f : Format) (ir : IR) (hbad : view (bad f ir) ≠ view ir) (hD : D (bad f ir))
    (fs : List Format) : view (chain hop fs (bad f ir)) ≠ view ir := by
  rw [(chain_preserves hop view D closed single fs (bad f ir) hD).1]; exact hbad

/-! ### non-vacuity: a concrete instance (two formats over a toy interface) -/
inductive F2 | a | b
def toyHop : F2 → (List Nat × Nat) → (List Nat × Nat)
  | .a, (ps, k) => (ps, k + 1)      -- a hop may change what the view does not observe
  | .b, (ps, k) => (ps, 0)
example : ∀ fs ir, (chain toyHop fs ir).1 = ir.1 := fun fs ir =>
  (chain_preserves toyHop (·.1) (fun _ => True) (fun _ _ _ => trivial)
    (fun f ir _ => by cases f <;> cases ir <;> rfl) fs ir trivial).1

end C03
