import CddVerif.Proofs.EmitIface
/-!
# C04 — emitted code runs and exposes exactly the described interface

Objects: `EmitIface.emitClass / emitFunction / emitArgparse` are decision-by-decision ports of the three emitters
(`param2ast`, `_generic_param2ast`, `set_value`, `param2argparse_param`, `_resolve_arg`, `_parse_node_for_arg`,
`infer_type_and_default`, …); `classAttrs`, `signature`, `actionOf`, `parseArgs`, `acceptsTok` are a denotational
semantics of the emitted subset (what CPython / `inspect` / `argparse` do with it — validated against the real
interpreter on every generated program, not verified).  `DIR` is the executable domain (types from `typing` +
`builtins`: scalars, `Optional`, `Union`, `List`, `Literal` (strings / one member / with integers), `Optional[Literal]`,
`Annotated[T, 'note']`, `Tuple[T, ...]`, `Callable[..., T]`; literal defaults incl. `0`, `0.0`, `False`, `''`, `None`);
`describe…` (in `Model/EmitIfaceSpec.lean`) say what a description promises.

Every theorem quantifies over **all** well-formed descriptions: any number of parameters, any names / prose / members.

Status per clause of the statement:
* class attributes carry the described defaults and annotations — **full** (`class_attrs_described`);
* `inspect.signature` shows names, order, kinds, annotations — full; *defaults* — the code turns "no default" into
  `None`: exact characterisation `signature_characterised`, **partial** `signature_described_partial`, **negation**
  `not_function_full`;
* one option per parameter; help, default, `append` — **full**; `choices` — partial + negation (a one-member `Literal`
  gets none); `required` — exact characterisation, partial + two negations; type conversion/`choices` acceptance —
  partial + negations (`Union`, `Literal` with a non-string member);
* `parse_args([])` — **full** for the semantics (`parse_empty_semantics`: fails iff some option is emitted required,
  else yields the described defaults), partial + negation against the description;
* "unparse then re-parse gives an equal AST" is a statement about CPython's printer/parser pair: it is **observed** on
  every emitted AST by the harness, **not proved** (the property is labelled partial for this reason as well).
-/
namespace C04
open Py EmitIface

/-- `P` holds between every parameter and the action at the same position of the populated parser — in particular
    there is exactly one action per parameter, in the described order -/
inductive Pointwise {α β} (P : α → β → Prop) : List α → List β → Prop
  | nil : Pointwise P [] []
  | cons {a b as bs} : P a b → Pointwise P as bs → Pointwise P (a :: as) (b :: bs)

def ActionsSatisfy (ir : DIR) (P : DParam → Action → Prop) : Prop :=
  ∃ acts, actions ir.toIR = .ok acts ∧ Pointwise P ir.params acts

theorem forall2_map {α β} (P : α → β → Prop) (f : α → β) : ∀ (l : List α), (∀ a ∈ l, P a (f a)) → Pointwise P l (l.map f)
  | [], _ => .nil
  | a :: as, h => .cons (h a (List.mem_cons_self ..)) (forall2_map P f as (fun x hx => h x (List.mem_cons_of_mem _ hx)))

theorem any_congr' {α} (f g : α → Bool) : ∀ (l : List α), (∀ a ∈ l, f a = g a) → l.any f = l.any g
  | [], _ => rfl
  | a :: as, h => by
    simp only [List.any_cons, h a (List.mem_cons_self ..), any_congr' f g as (fun x hx => h x (List.mem_cons_of_mem _ hx))]

theorem satisfy_of (ir : DIR) (h : ir.WF = true) (P : DParam → Action → Prop)
    (hp : ∀ p ∈ ir.params, p.WF = true → P p (emittedAction p)) : ActionsSatisfy ir P := by
  have hwf : ir.params.all DParam.WF = true := by
    simp only [DIR.WF, Bool.and_eq_true] at h; exact h.1
  exact ⟨_, actions_dom ir h, forall2_map P _ _ (fun p hm => hp p hm (List.all_eq_true.mp hwf p hm))⟩

/-! ## class -/

/-- **Class attributes carry the described defaults and annotations (full strength).**  For every well-formed
    description and every list of bases (`object`, `BaseModel`, …): executing the emitted class body binds exactly the
    described annotations (parameters in order, then `return_type`) and exactly the described defaults. -/
theorem class_attrs_described (bases : List Str) (ir : DIR) (h : ir.WF = true) :
    (emitClass bases ir.toIR).map classAttrs = .ok (describeClass ir) :=
  classAttrs_dom bases ir h

/-- `a: Optional[int] = 0`, `b: Union[int, float] = 0.0`, `c: Optional[bool] = False`, `d: str = ''` -/
def falsyIR : DIR :=
  { name := ['F'], doc := [], returns := none, params := [
      { name := ['a'], typ := .optional .int, doc := [], default := some (.int 0) },
      { name := ['b'], typ := .union .int [.float], doc := [], default := some (.float ['0', '.', '0']) },
      { name := ['c'], typ := .optional .bool, doc := [], default := some (.bool false) },
      { name := ['d'], typ := .scalar .str, doc := [], default := some (.str []) }] }

/-- non-vacuity of `class_attrs_described`, and the corner the property names: falsy defaults under compound types
    keep their value -/
theorem falsy_defaults_kept :
    falsyIR.WF = true ∧
    (emitClass [] falsyIR.toIR).map (fun c => (classAttrs c).values) =
      .ok [(['a'], .c (.int 0)), (['b'], .c (.float ['0', '.', '0'])), (['c'], .c (.bool false)), (['d'], .c (.str []))] :=
  ⟨by decide, rfl⟩

/-! ### today's spellings (outside `DIR`; tied to the code by the correspondence, pinned here on the regression's inputs) -/

/-- `str | None` as `ast.parse` gives it (PEP 604: a `BinOp`) -/
def strOrNone : TExpr := .binop (.name sStr) (.const .none)

/-- **`needs_quoting` sees through a PEP 604 union** (`ast.walk` reaches the `Name` `str` below the `BinOp`), so a string
    default of `mode: str | None` stays a string constant: `mode: str | None = 'auto'`, and `'first batch'` for
    `label: int | str` — neither parsed as source (`= auto`) nor code-quoted.  Concrete instances, not a quantified
    statement; the quantified tie for these spellings is the correspondence run. -/
theorem pep604_str_default_kept :
    needsQuoting strOrNone = true ∧
    param2ast { name := ['m'], typ := some strOrNone, doc := [], default := some (.str ['a', 'u', 't', 'o']) } =
      .ok (.annAssign ['m'] strOrNone (some (.c (.str ['a', 'u', 't', 'o'])))) ∧
    param2ast { name := ['l'], typ := some (.binop (.name sInt) (.name sStr)), doc := [],
                default := some (.str ['f', 'i', 'r', 's', 't', ' ', 'b', 'a', 't', 'c', 'h']) } =
      .ok (.annAssign ['l'] (.binop (.name sInt) (.name sStr)) (some (.c (.str ['f', 'i', 'r', 's', 't', ' ', 'b', 'a', 't', 'c', 'h'])))) :=
  ⟨rfl, rfl, rfl⟩

/-! ## function -/

/-- the clause as stated: the signature shows the described names, order and defaults -/
def C04_function_full : Prop :=
  ∀ (cfg : FuncCfg) (ir : DIR), ir.WF = true → signature (emitFunction cfg ir.toIR) = .ok (describeSig cfg ir)

/-- **Exact characterisation:** names, order, kinds (keyword-only or positional as configured, after the `self`/`cls`
    receiver), annotations and the return annotation are the described ones; the default shown is the described one
    where there is one and **`None` where the description has none**.  (`noNoneWord`: no string default is the word
    `None`, which the emitter also turns into the constant.) -/
theorem signature_characterised (cfg : FuncCfg) (ir : DIR) (h : ir.WF = true)
    (hn : ir.params.all DParam.noNoneWord = true) :
    signature (emitFunction cfg ir.toIR) = .ok (describeSig cfg (fillNone ir)) :=
  signature_dom cfg ir h hn

/-- **Partial:** the clause holds for every description whose parameters all have a default. -/
theorem signature_described_partial (cfg : FuncCfg) (ir : DIR) (h : ir.WF = true)
    (hn : ir.params.all DParam.noNoneWord = true) (hd : ∀ p ∈ ir.params, p.default.isSome = true) :
    signature (emitFunction cfg ir.toIR) = .ok (describeSig cfg ir) := by
  rw [signature_dom cfg ir h hn, fillNone_id ir hd]

/-- `def F(*, x: int)` as described -/
def noDefaultIR : DIR :=
  { name := ['F'], doc := [], returns := none,
    params := [{ name := ['x'], typ := .scalar .int, doc := ['t', 'h', 'e', ' ', 'x'], default := none }] }

/-- **Negation (known finding `C04-function-absent-default-none`):** `x: int` without default is emitted as
    `def F(*, x: int=None)`. -/
theorem not_function_full : ¬ C04_function_full := by
  intro H
  have h := H {} noDefaultIR (by decide)
  have := congrArg (fun (r : Except String FuncSem) => match r with | .ok s => (FuncSem.params s).map SigParam.default | .error _ => []) h
  revert this
  decide

/-- non-vacuity of `signature_described_partial` -/
example : falsyIR.WF = true ∧ falsyIR.params.all DParam.noNoneWord = true ∧ ∀ p ∈ falsyIR.params, p.default.isSome = true := by
  decide

/-! ## argparse: one action per parameter; help, default, action class -/

/-- **One option per parameter, in order, named after it (full).** -/
theorem one_action_per_param (ir : DIR) (h : ir.WF = true) : ActionsSatisfy ir (fun p a => a.dest = p.name) :=
  satisfy_of ir h _ (fun _ _ _ => rfl)

/-- **Help text, default and action class agree with the description (full):** `help` is the parameter's prose (absent
    when empty), `default` is the described default (`None` ≡ none; falsy values kept), `append` iff the type is a `List`. -/
theorem action_help_default (ir : DIR) (h : ir.WF = true) :
    ActionsSatisfy ir (fun p a => a.help = describedHelp p ∧ a.default = describedDefault p ∧ a.append = p.typ.isList) :=
  satisfy_of ir h _ (fun _ _ _ => ⟨rfl, rfl, rfl⟩)

/-! ## argparse: choices -/

def DTyp.singleLiteral : DTyp → Bool
  | .literal _ [] => true | .optLiteral _ [] => true | _ => false

def C04_choices_full : Prop :=
  ∀ ir : DIR, ir.WF = true → ActionsSatisfy ir (fun p a => a.choices = describedChoices p.typ)

/-- **Partial:** `choices` are exactly the members of a `Literal` (no `choices` for any other type), except for a
    `Literal` with a single member. -/
theorem action_choices_partial (ir : DIR) (h : ir.WF = true) :
    ActionsSatisfy ir (fun p a => DTyp.singleLiteral p.typ = false → a.choices = describedChoices p.typ) := by
  apply satisfy_of ir h
  intro p _ _ hs
  show p.typ.resChoices = describedChoices p.typ
  cases ht : p.typ with
  | literal m ms => cases ms with
    | nil => simp [ht, DTyp.singleLiteral] at hs
    | cons b r => rfl
  | optLiteral m ms => cases ms with
    | nil => simp [ht, DTyp.singleLiteral] at hs
    | cons b r => rfl
  | _ => rfl

/-- **No `choices` from a partially constant subscript:** `Annotated[int, 'seconds']`, `Tuple[int, ...]`,
    `Callable[..., int]` (a constant next to a type inside the brackets) never produce `choices=`. -/
theorem no_choices_from_partial_subscript (ir : DIR) (h : ir.WF = true) :
    ActionsSatisfy ir (fun p a =>
      ((∃ s n, p.typ = .annotated s n) ∨ (∃ s, p.typ = .tupleEllipsis s) ∨ (∃ s, p.typ = .callableEllipsis s)) →
      a.choices = none) := by
  apply satisfy_of ir h
  intro p _ _ hs
  show p.typ.resChoices = none
  rcases hs with ⟨s, n, ht⟩ | ⟨s, ht⟩ | ⟨s, ht⟩ <;> rw [ht] <;> rfl

/-- `x: Literal['only']` -/
def singleLiteralIR : DIR :=
  { name := ['F'], doc := [], returns := none,
    params := [{ name := ['x'], typ := .literal (.s ['o', 'n', 'l', 'y']) [], doc := [], default := none }] }

/-- **Negation (known finding `C04-argparse-literal-single-no-choices`):** a one-member `Literal` gets no `choices`
    (the subscript is not a `Tuple` node), so every string is accepted. -/
theorem not_choices_full : ¬ C04_choices_full := by
  intro H
  obtain ⟨acts, ha, hf⟩ := H singleLiteralIR (by decide)
  rw [actions_dom singleLiteralIR (by decide)] at ha
  injection ha with ha
  subst ha
  cases hf with
  | cons h _ => revert h; decide

/-! ## argparse: the `required` flag -/

def C04_required_full : Prop :=
  ∀ ir : DIR, ir.WF = true → ActionsSatisfy ir (fun p a => a.required = describedRequired p)

/-- **Exact characterisation:** the emitted `required` flag agrees with the description **iff** the type is `Optional`,
    or the parameter has no default and its converter is not `bool`. -/
theorem action_required_characterised (ir : DIR) (h : ir.WF = true) :
    ActionsSatisfy ir (fun p a => (a.required = describedRequired p ↔ requiredAgrees p = true)) :=
  satisfy_of ir h _ (fun p _ hw => emittedRequired_iff p hw)

/-- **Partial:** on that region the flag is the described one. -/
theorem action_required_partial (ir : DIR) (h : ir.WF = true) :
    ActionsSatisfy ir (fun p a => requiredAgrees p = true → a.required = describedRequired p) :=
  satisfy_of ir h _ (fun p _ hw hr => (emittedRequired_iff p hw).mpr hr)

/-- `x: int = 5` -/
def defaultIntIR : DIR :=
  { name := ['F'], doc := [], returns := none,
    params := [{ name := ['x'], typ := .scalar .int, doc := [], default := some (.int 5) }] }
/-- `x: bool` -/
def boolNoDefaultIR : DIR :=
  { name := ['F'], doc := [], returns := none,
    params := [{ name := ['x'], typ := .scalar .bool, doc := [], default := none }] }

/-- **Negation (known finding `C04-argparse-required-despite-default`):** `x: int = 5` is emitted with
    `required=True, default=5`. -/
theorem not_required_full_default : ¬ C04_required_full := by
  intro H
  obtain ⟨acts, ha, hf⟩ := H defaultIntIR (by decide)
  rw [actions_dom defaultIntIR (by decide)] at ha
  injection ha with ha
  subst ha
  cases hf with
  | cons h _ => revert h; decide

/-- **Negation (known finding `C04-argparse-bool-not-required`):** `x: bool` without default is *not* required. -/
theorem not_required_full_bool : ¬ C04_required_full := by
  intro H
  obtain ⟨acts, ha, hf⟩ := H boolNoDefaultIR (by decide)
  rw [actions_dom boolNoDefaultIR (by decide)] at ha
  injection ha with ha
  subst ha
  cases hf with
  | cons h _ => revert h; decide

/-- non-vacuity: a description inside the agreeing region -/
example : noDefaultIR.WF = true ∧ noDefaultIR.params.all requiredAgrees = true := by decide

/-! ## argparse: type conversion and choices accept the legal values -/

/-- the clause: whenever `choices` is present, every legal value of the described type is accepted.
    (Were `choices` produced from a partially constant subscript — `('seconds',)` for `Annotated[int, 'seconds']` — the
    legal integers would be rejected and this statement, like `choices_accept_legal`, would be false.) -/
def C04_choices_accept_full : Prop :=
  ∀ ir : DIR, ir.WF = true → ActionsSatisfy ir (fun p a =>
    ∀ cs, a.choices = some cs → ∀ t : Tok, p.typ.legalTok t = true → acceptsTok a t = true)

/-- **Partial:** it holds for every type of the domain except a `Literal` with a non-string member — including
    `Annotated[int, 'seconds']`, `Tuple[int, ...]`, `Callable[..., int]`, for which it says that no `choices` exist. -/
theorem choices_accept_legal (ir : DIR) (h : ir.WF = true) :
    ActionsSatisfy ir (fun p a => p.typ.allStrMembers = true →
      ∀ cs, a.choices = some cs → ∀ t : Tok, p.typ.legalTok t = true → acceptsTok a t = true) := by
  apply satisfy_of ir h
  intro p _ hw hall cs hcs t hl
  have hc : p.typ.resChoices = some cs := hcs
  cases ht : p.typ with
  | literal m ms => cases ms with
    | nil => rw [ht] at hc; cases hc
    | cons b r => rw [accepts_literal p hw m b r (.inl ht) (by simpa [ht, DTyp.allStrMembers] using hall)]; exact hl
  | optLiteral m ms => cases ms with
    | nil => rw [ht] at hc; cases hc
    | cons b r => rw [accepts_literal p hw m b r (.inr ht) (by simpa [ht, DTyp.allStrMembers] using hall)]; exact hl
  | _ => rw [ht] at hc; cases hc

/-- `x: Literal['a', 1]` -/
def mixedLiteralIR : DIR :=
  { name := ['F'], doc := [], returns := none,
    params := [{ name := ['x'], typ := .literal (.s ['a']) [.i 1], doc := [], default := none }] }

/-- **Negation (known finding `C04-argparse-literal-nonstr-rejected`):** for `Literal['a', 1]` the emitted parser
    has `choices=('a', 1)` and no `type=`, so the legal value `1` arrives as the string `'1'` and is rejected. -/
theorem not_choices_accept_full : ¬ C04_choices_accept_full := by
  intro H
  obtain ⟨acts, ha, hf⟩ := H mixedLiteralIR (by decide)
  rw [actions_dom mixedLiteralIR (by decide)] at ha
  injection ha with ha
  subst ha
  cases hf with
  | cons h _ =>
    have := h _ rfl { text := ['1'], asInt := some 1, asFloat := some ['1', '.', '0'] } (by decide)
    revert this
    decide

/-- types whose command-line reading is a single scalar conversion, or a `Literal` of ≥ 2 strings -/
def DTyp.convExact : DTyp → Bool
  | .scalar _ => true | .optional _ => true | .list _ => true | .annotated _ _ => true
  | .literal m (b :: r) => (m :: b :: r).all LitM.isStr
  | .optLiteral m (b :: r) => (m :: b :: r).all LitM.isStr
  | _ => false

/-- the clause "type conversion and choices agree with the description", semantically: the action accepts exactly
    the legal values of the described type (for the types that can be written on a command line) -/
def C04_accepts_full : Prop :=
  ∀ ir : DIR, ir.WF = true → ActionsSatisfy ir (fun p a => p.typ.cli = true → ∀ t : Tok, acceptsTok a t = p.typ.legalTok t)

/-- **Partial:** for scalars, `Optional[scalar]`, `List[scalar]`, `Annotated[scalar, …]` and `Literal`s of two or more
    strings (also under `Optional`), with any legal default, the action accepts **exactly** the legal values — a
    converter that is too wide (`type=str` for an `int`) or too narrow would falsify it. -/
theorem accepts_iff_legal_partial (ir : DIR) (h : ir.WF = true) :
    ActionsSatisfy ir (fun p a => DTyp.convExact p.typ = true → ∀ t : Tok, acceptsTok a t = p.typ.legalTok t) := by
  apply satisfy_of ir h
  intro p _ hw hce t
  cases ht : p.typ with
  | scalar s => rw [← ht]; exact accepts_scalarLike p hw s (by rw [ht]; rfl) t
  | optional s => rw [← ht]; exact accepts_scalarLike p hw s (by rw [ht]; rfl) t
  | list s => rw [← ht]; exact accepts_scalarLike p hw s (by rw [ht]; rfl) t
  | annotated s n => rw [← ht]; exact accepts_scalarLike p hw s (by rw [ht]; rfl) t
  | literal m ms => cases ms with
    | nil => simp [ht, DTyp.convExact] at hce
    | cons b r => rw [← ht]; exact accepts_literal p hw m b r (.inl ht) (by simpa [ht, DTyp.convExact] using hce) t
  | optLiteral m ms => cases ms with
    | nil => simp [ht, DTyp.convExact] at hce
    | cons b r => rw [← ht]; exact accepts_literal p hw m b r (.inr ht) (by simpa [ht, DTyp.convExact] using hce) t
  | union a rest => simp [ht, DTyp.convExact] at hce
  | tupleEllipsis s => simp [ht, DTyp.convExact] at hce
  | callableEllipsis s => simp [ht, DTyp.convExact] at hce

/-- `x: Union[int, float] = 0` -/
def unionIR : DIR :=
  { name := ['F'], doc := [], returns := none,
    params := [{ name := ['x'], typ := .union .int [.float], doc := [], default := some (.int 0) }] }

/-- **Negation (known finding `C04-argparse-union-converter`):** for `Union[int, float] = 0` the converter is taken
    from the default (`type=int`), so the legal value `2.5` is rejected. -/
theorem not_accepts_full_union : ¬ C04_accepts_full := by
  intro H
  obtain ⟨acts, ha, hf⟩ := H unionIR (by decide)
  rw [actions_dom unionIR (by decide)] at ha
  injection ha with ha
  subst ha
  cases hf with
  | cons h _ =>
    have := h rfl { text := ['2', '.', '5'], asInt := none, asFloat := some ['2', '.', '5'] }
    revert this
    decide

/-- `x: Literal['a', 'b'] = 'a'` -/
def strLiteralIR : DIR :=
  { name := ['F'], doc := [], returns := none,
    params := [{ name := ['x'], typ := .literal (.s ['a']) [.s ['b']], doc := [], default := some (.str ['a']) }] }

/-- non-vacuity of `accepts_iff_legal_partial` / `choices_accept_legal` -/
example : strLiteralIR.WF = true ∧ strLiteralIR.params.all (fun p => DTyp.convExact p.typ && p.typ.allStrMembers) = true := by
  decide

/-! ## argparse: `parse_args([])` -/

/-- **`parse_args([])` (full, semantics of the emitted parser):** it exits iff some option was emitted `required`;
    otherwise it yields, for every parameter in order, the described default (`None` where there is none). -/
theorem parse_empty_semantics (ir : DIR) (h : ir.WF = true) :
    ∃ acts, actions ir.toIR = .ok acts ∧
      parseArgs acts [] = if acts.any (·.required) then .error "exit: required"
                          else .ok (ir.params.map (fun p => (p.name, RVal.one ((describedDefault p).getD .none)))) := by
  refine ⟨_, actions_dom ir h, ?_⟩
  have hwf : ir.params.all DParam.WF = true := by
    simp only [DIR.WF, Bool.and_eq_true] at h; exact h.1
  have hconv : ∀ a ∈ ir.params.map emittedAction, ∀ s, a.default = some (.str s) → (convert a.conv (classify s)).isSome = true := by
    intro a ha s hs
    obtain ⟨p, hp, rfl⟩ := List.mem_map.mp ha
    have hd : describedDefault p = some (.str s) := hs
    have he : emittedScalar p = .str := by
      unfold describedDefault at hd
      unfold emittedScalar
      cases hpd : p.default with
      | none => simp [hpd] at hd
      | some d => cases d <;> simp_all [DDefault.val]
    simp [emittedAction, he, Scalar.conv, convert]
  rw [parseArgs_empty _ hconv]
  congr 1
  rw [List.map_map]
  apply congrArg
  apply List.map_congr_left
  intro p hp
  have hw := List.all_eq_true.mp hwf p hp
  simp only [Function.comp, emptyValue, emittedAction]
  cases hd : describedDefault p with
  | none => rfl
  | some c =>
    cases c with
    | str s =>
      have he : emittedScalar p = .str := by
        unfold describedDefault at hd
        unfold emittedScalar
        cases hpd : p.default with
        | none => simp [hpd] at hd
        | some d => cases d <;> simp_all [DDefault.val]
      simp [he, Scalar.conv, convert, classify]
    | _ => rfl

def C04_parse_empty_full : Prop :=
  ∀ ir : DIR, ir.WF = true → ∃ acts, actions ir.toIR = .ok acts ∧ parseArgs acts [] = describedParseEmpty ir

/-- **Partial:** when every parameter lies in the region where the `required` flag is right, `parse_args([])` is what
    the description says: it exits iff some parameter must be supplied and otherwise yields the described defaults. -/
theorem parse_empty_described_partial (ir : DIR) (h : ir.WF = true) (hr : ir.params.all requiredAgrees = true) :
    ∃ acts, actions ir.toIR = .ok acts ∧ parseArgs acts [] = describedParseEmpty ir := by
  obtain ⟨acts, ha, hp⟩ := parse_empty_semantics ir h
  refine ⟨acts, ha, ?_⟩
  rw [hp]
  have hwf : ir.params.all DParam.WF = true := by
    simp only [DIR.WF, Bool.and_eq_true] at h; exact h.1
  rw [actions_dom ir h] at ha
  injection ha with ha
  subst ha
  unfold describedParseEmpty
  have : (ir.params.map emittedAction).any (·.required) = ir.params.any describedRequired := by
    rw [List.any_map]
    apply any_congr'
    intro p hp
    exact (emittedRequired_iff p (List.all_eq_true.mp hwf p hp)).mpr (List.all_eq_true.mp hr p hp)
  rw [this]

/-- `a: Optional[int] = 0`, `b: Optional[str] = None` -/
def optionalIR : DIR :=
  { name := ['F'], doc := [], returns := none, params := [
      { name := ['a'], typ := .optional .int, doc := [], default := some (.int 0) },
      { name := ['b'], typ := .optional .str, doc := [], default := some .none }] }

/-- non-vacuity of `parse_empty_described_partial`: the hypotheses hold and the described result is a proper namespace
    (with the falsy default `0` kept) -/
example : optionalIR.WF = true ∧ optionalIR.params.all requiredAgrees = true ∧
    describedParseEmpty optionalIR = .ok [(['a'], .one (.int 0)), (['b'], .one .none)] := ⟨by decide, by decide, rfl⟩

/-- **Negation (known finding `C04-argparse-required-despite-default`):** for `x: int = 5` the description promises
    `parse_args([]).x == 5`; the emitted parser exits because `--x` is `required`. -/
theorem not_parse_empty_full : ¬ C04_parse_empty_full := by
  intro H
  obtain ⟨acts, ha, hp⟩ := H defaultIntIR (by decide)
  rw [actions_dom defaultIntIR (by decide)] at ha
  injection ha with ha
  subst ha
  have := congrArg (fun (r : Except String (List (Str × RVal))) => match r with | .ok _ => true | .error _ => false) hp
  revert this
  decide

end C04
