import CddVerif.Properties.C01Google
/-!
# C01, Google style — what comes back for the return entry and for decimal defaults (model witnesses)

`C01Google.google_roundtrip_full` excludes the return entry and decimal defaults.  These theorems record, on concrete
interfaces evaluated by the kernel (and replayed on the real code, see the report), what the model answers there; they
are **observations on witnesses**, not universal statements, and mark the shape an extension of the domain has to take:

* with at least one parameter the return entry survives (type and description), **a non-empty header gains a trailing
  newline**, and the return entry is subject to the `require_default` latch (its type is *not* wrapped in `Optional`);
* a return entry that is the only section comes back with its type glued in front of the description and no type
  (`return_doc_gets_type_prefix`, the known finding C01-google-return-doc / -typ);
* canonical decimals round-trip like integers.
-/
namespace C01GoogleReturn
open Py Doc DocGN DocGNRT C01Google

/-- parameters + return entry: everything comes back; the non-empty header gains `"\n"`, the empty one stays empty -/
theorem return_survives_with_params :
    roundTripG { doc := g!"H", params := [(g!"a", { doc := some g!"x" })],
                 returns := some { typ := some g!"Optional[int]", doc := some g!"some text here" } } true
      = some (.ok ⟨g!"H\n", [(g!"a", { doc := some g!"x" })], some { typ := some g!"Optional[int]", doc := some g!"some text here" }⟩)
    ∧ roundTripG { doc := [], params := [(g!"a", { doc := some g!"x" })], returns := some { typ := some g!"int", doc := some g!"res" } } true
      = some (.ok ⟨[], [(g!"a", { doc := some g!"x" })], some { typ := some g!"int", doc := some g!"res" }⟩)
    ∧ roundTripG { doc := g!"H", params := [(g!"a", { doc := some g!"x" })], returns := some { doc := some g!"res" } } true
      = some (.ok ⟨g!"H\n", [(g!"a", { doc := some g!"x" })], some { doc := some g!"res" }⟩) := by
  refine ⟨by decide +kernel, by decide +kernel, by decide +kernel⟩

/-- the latch reaches the return entry: after a carried default it acquires `None` (type left as declared) -/
theorem return_latch_default :
    roundTripG { doc := g!"H", params := [(g!"a", { doc := some g!"x", default := some (.int 1) })],
                 returns := some { typ := some g!"Foo", doc := some g!"res" } } true
      = some (.ok ⟨g!"H\n", [(g!"a", { typ := some g!"int", doc := some g!"x. Defaults to 1", default := some (.base (.int 1)) })],
                   some { typ := some g!"Foo", doc := some g!"res", default := some (.base .none) }⟩) := by decide +kernel

/-- a return entry as the only section: the type is glued in front of the description and lost as a type -/
theorem return_doc_gets_type_prefix :
    roundTripG { doc := g!"H", params := [], returns := some { typ := some g!"Optional[int]", doc := some g!"some text here" } } true
      = some (.ok ⟨g!"H", [], some { doc := some g!" Optional[int]:   some text here" }⟩) := by decide +kernel

/-- decimals (`repr`-canonical) behave like integers: carried, type inferred or kept -/
theorem decimals_roundtrip_observed :
    roundTripG { doc := g!"H", params := [(g!"a", { doc := some g!"x", default := some (.float g!"0.5") }),
                                          (g!"b", { typ := some g!"float", doc := some g!"y", default := some (.float g!"12.25") })] } true
      = some (.ok ⟨g!"H", [(g!"a", { typ := some g!"float", doc := some g!"x. Defaults to 0.5", default := some (.base (.float g!"0.5")) }),
                           (g!"b", { typ := some g!"float", doc := some g!"y. Defaults to 12.25", default := some (.base (.float g!"12.25")) })],
                   Option.none⟩) := by decide +kernel

end C01GoogleReturn
