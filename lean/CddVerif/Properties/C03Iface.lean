import CddVerif.Properties.C02
import CddVerif.Properties.C03
/-!
# C03 on the interface model of C02 — the single-hop premise discharged

`C03.chain_preserves` is parametric: it assumes that every single hop preserves the view.  For the four code formats
(class, pydantic, function, argparse) that premise is **proved** here from the C02 round-trip theorems over the model
of the emitters and parsers (`Model/Iface*.lean`): on the region `Dom` — the interface lies in the C02 domain of every
format, the docstring layer (a parameter) behaves on it, and the statement's per-format normalisation is the identity
on it (every parameter has a default; a return entry has one too) — one hop `emit → render/re-read → parse` succeeds
and returns an interface with the same view.  By induction, every chain of hops of any length over these formats
succeeds and preserves names, order, types, defaults and descriptions, provided the region is closed under hops (the
closure is a hypothesis: it speaks about what the abstract docstring layer answers for the *next* docstring; it is
evaluated on the real pipeline by the harness after every hop of every chain).
-/
namespace C03Iface
open Iface

/-- one hop on the model: emit, render + re-read, parse -/
def hopE (env : Env) (cfg : Cfg) (f : Format) (ir : IR) : Except String IR := do
  let t ← emit env f cfg ir
  parse env f t.reparse

/-- a chain of hops, left to right, stopping at the first failure -/
def chainE (env : Env) (cfg : Cfg) : List Format → IR → Except String IR
  | [], ir => .ok ir
  | f :: fs, ir => match hopE env cfg f ir with
    | .ok ir' => chainE env cfg fs ir'
    | .error e => .error e

/-- the region: inside the C02 domain of every format, the docstring layer's own round trip holds, and the statement's
    normalisations change nothing -/
def Dom (env : Env) (cfg : Cfg) (ir : IR) : Prop :=
  ∀ f : Format, inD02 env f cfg ir = true ∧ docHyp env f cfg ir = true ∧ (C02.norm f ir).view = ir.view

theorem roundTrip_hop (env : Env) (cfg : Cfg) (f : Format) (ir : IR) (v : List PV × Option PV)
    (h : C02.roundTrip env f cfg ir = .ok v) : ∃ ir', hopE env cfg f ir = .ok ir' ∧ ir'.view = v := by
  unfold C02.roundTrip at h
  unfold hopE
  cases he : emit env f cfg ir with
  | error e => rw [he] at h; cases h
  | ok t =>
    rw [he] at h
    simp only [bind, Except.bind] at h ⊢
    cases hp : parse env f t.reparse with
    | error e => rw [hp] at h; cases h
    | ok ir' =>
      rw [hp] at h
      simp only [pure, Except.pure] at h
      refine ⟨ir', rfl, ?_⟩
      cases h; rfl

/-- **single hop, proved from C02:** on `Dom` every hop succeeds and preserves the view -/
theorem single (env : Env) (hEnv : EnvOK env) (cfg : Cfg) (f : Format) (ir : IR) (h : Dom env cfg ir) :
    ∃ ir', hopE env cfg f ir = .ok ir' ∧ ir'.view = ir.view := by
  obtain ⟨hD, hH, hN⟩ := h f
  have hrt : C02.roundTrip env f cfg ir = .ok (C02.norm f ir).view := by
    cases f with
    | class_ => exact C02.C02_class env hEnv cfg ir hD hH
    | pydantic => exact C02.C02_pydantic env hEnv cfg ir hD hH
    | function => exact C02.C02_function env cfg ir hD hH
    | argparse => exact C02.C02_argparse env cfg ir hD hH
  obtain ⟨ir', h1, h2⟩ := roundTrip_hop env cfg f ir _ hrt
  exact ⟨ir', h1, h2.trans hN⟩

/-- **C03 over class / pydantic / function / argparse, any length:** every chain of conversions succeeds and returns
    an interface with the same names, order, types, defaults and descriptions — the single-hop premise is `single`
    (proved), the closure of the region under hops is the remaining hypothesis. -/
theorem chain_iface (env : Env) (hEnv : EnvOK env) (cfg : Cfg)
    (closed : ∀ f ir ir', Dom env cfg ir → hopE env cfg f ir = .ok ir' → Dom env cfg ir') :
    ∀ (fs : List Format) (ir : IR), Dom env cfg ir →
      ∃ ir', chainE env cfg fs ir = .ok ir' ∧ ir'.view = ir.view ∧ Dom env cfg ir' := by
  intro fs
  induction fs with
  | nil => intro ir h; exact ⟨ir, rfl, rfl, h⟩
  | cons f fs ih =>
    intro ir h
    obtain ⟨ir1, h1, hv1⟩ := single env hEnv cfg f ir h
    obtain ⟨ir2, h2, hv2, hd2⟩ := ih ir1 (closed f ir ir1 h h1)
    refine ⟨ir2, ?_, hv2.trans hv1, hd2⟩
    unfold chainE
    rw [h1]
    exact h2

/-- **commutation:** two chains from the same interface end with the same view, whatever formats they visited -/
theorem chains_commute_iface (env : Env) (hEnv : EnvOK env) (cfg : Cfg)
    (closed : ∀ f ir ir', Dom env cfg ir → hopE env cfg f ir = .ok ir' → Dom env cfg ir')
    (fs gs : List Format) (ir : IR) (h : Dom env cfg ir) :
    ∃ a b, chainE env cfg fs ir = .ok a ∧ chainE env cfg gs ir = .ok b ∧ a.view = b.view := by
  obtain ⟨a, ha, hva, _⟩ := chain_iface env hEnv cfg closed fs ir h
  obtain ⟨b, hb, hvb, _⟩ := chain_iface env hEnv cfg closed gs ir h
  exact ⟨a, b, ha, hb, hva.trans hvb.symm⟩

/-! ### non-vacuity: a concrete environment and interface inside `Dom`, hops evaluated

An ideal docstring layer that answers, per reader, the entries with their descriptions (class / function readers) or
the argparse skeleton (argparse reader); four parameters with falsy defaults of their own types. -/

def irC : IR :=
  { name := some "F", doc := "Summary.", type := some "static",
    params := [("a", { doc := some "first one", typ := some "int", default := some (.val (.int 0)) }),
               ("b", { doc := some "second", typ := some "Optional[float]", default := some (.val (.float "0.0")) }),
               ("c", { doc := some "third", typ := some "bool", default := some (.val (.bool false)) }),
               ("e", { doc := some "fifth", typ := some "str", default := some (.val (.str "")) })],
    returns := none }
def dC : IR :=
  { doc := "Summary.",
    params := [("a", { doc := some "first one" }), ("b", { doc := some "second" }), ("c", { doc := some "third" }),
               ("e", { doc := some "fifth" })] }
def dArg : IR :=
  { doc := "Set CLI arguments",
    params := [("argument_parser", { doc := some "argument parser", typ := some "ArgumentParser" })],
    returns := some { doc := some "argument_parser", typ := some "ArgumentParser" } }
def rawArg : String := "\n    Set CLI arguments\n\n    :return: argument_parser\n    :rtype: ```ArgumentParser```\n    "
def envAll : Env :=
  { docEmit := fun _ _ => rawArg,
    docParse := fun c _ => match c with | .cls => dC | .fn _ => dC | .argparse => dArg,
    extractDefault := fun _ s => (s, none), adhocTyp := fun _ _ _ => none,
    pyExpr := fun _ => none }

theorem envAll_ok : EnvOK envAll := by intro s _; rfl

set_option maxRecDepth 8000 in
/-- the hypotheses of `single` / `chain_iface` are satisfiable: `irC` lies in `Dom` -/
theorem irC_dom : Dom envAll {} irC := by
  intro f; cases f <;> decide

set_option maxRecDepth 8000 in
/-- … and a chain through all four formats, evaluated: it succeeds and the view is the starting one -/
example : (chainE envAll {} [.class_, .argparse, .function, .pydantic] irC).map IR.view = .ok irC.view := by decide

set_option maxRecDepth 8000 in
/-- the closure hypothesis on this instance, evaluated for every first hop: the interface that comes back is in `Dom` again -/
example : ∀ f : Format, ∃ ir', hopE envAll {} f irC = .ok ir' ∧
    ∀ g : Format, inD02 envAll g {} ir' = true ∧ docHyp envAll g {} ir' = true ∧ (C02.norm g ir').view = ir'.view := by
  intro f; cases f <;> exact ⟨_, rfl, fun g => by cases g <;> decide⟩

end C03Iface
