import CddVerif.Proofs.SyncProperties
import CddVerif.Proofs.SyncPropertiesMulti
/-!
# C13 — `sync_properties` updates exactly the selected property

Model: `CddVerif/Model/SyncProperties.lean` (`annotate_ancestry`, `find_in_ast`, `RewriteAtQuery`, `ast_parse`,
`it2literal`, wrap template, `sync_property`), tied to `/repo` by `harness/props/c13.py`.
Vocabulary: `CddVerif/Proofs/SyncProperties.lean` — `OneHole P parent ss ss'`: the two statement lists are *literally
identical* except for ONE statement (at any depth inside class / `async def` bodies) `old ↦ new` with `P parent old new`;
`Slot search repl`: that statement is the one located at the search path and is replaced by the replacement node, or it
is a function whose parameter located at the search path is replaced by the replacement's `ast.arg` form
(`ArgsChange`: nothing else of the signature changes, `defaults` keeps its length).

The statement of C13 has four clauses — *frame*, *slot*, *alignment*, *input unchanged*.  The unchanged code violates
the statement in four regions; for each the full claim is kept as a `def … : Prop`, the part that holds is proved and the
negation is proved on a concrete witness which is replayed on the real code (`known_findings.d/C13.txt`).
-/
namespace C13
open PyAst SyncProps

/-- decidable view of a replacement node (name, annotation, value) for the written-out instances -/
def nodeView : Except Err Node → Option (String × Option String × Option String)
  | .ok (.stmt (.ann t a v)) => some (t, some a, v)
  | .ok (.arg a) => some (a.name, a.ann, none)
  | _ => none

/-! ## input unchanged -/

/-- **Input unchanged:** `sync_properties` returns the input module as it was (only the output file is written). -/
theorem input_unchanged (cfg : Config) (fs fs' : Files) (h : syncProperties cfg fs = .ok fs') : fs'.input = fs.input := by
  unfold syncProperties at h
  cases hs : syncProperty cfg (astParse fs.input) (astParse fs.output) with
  | error e => rw [hs] at h; cases h
  | ok out =>
    rw [hs] at h
    simp only [Except.map] at h
    cases h; rfl

/-- **Frame (parse step):** re-parsing (`ast_parse`) keeps every statement except the module docstring, and keeps a
    module without docstring entirely. -/
theorem only_module_docstring_reparsed (m : Module) :
    (astParse m).drop 1 = m.drop 1 ∧ (astParse m).length = m.length ∧ (docstringOf m = none → astParse m = m) := by
  cases m with
  | nil => simp [astParse]
  | cons s rest => cases s <;> simp [astParse, docstringOf]

/-! ## frame -/

/-- **Frame (`replaced` flag):** once one node has been replaced, the rest of the traversal changes nothing — later
    definitions that share the dotted path (a second `@overload`, a property setter after its getter) stay as they are. -/
theorem frame_after_replacement (search : Loc) (parent : Option String) (argOk : Bool) (st : RState) (ss : List Stmt)
    (h : st.replaced = true) : visitList search parent argOk st ss = (ss, st) := by
  have := (visitList_post search st.repl parent argOk st ss).rep h
  exact Prod.ext this.1 this.2

/-- **Frame (nothing found):** a rewrite that ends with `replaced = False` (→ `AssertionError`, nothing written) and
    without a phantom default write has not changed the tree. -/
theorem frame_untouched_when_not_replaced (search : Loc) (repl : Node) (m : Module)
    (he : (rewriteAtQuery search repl m).2.err = none) (hp : (rewriteAtQuery search repl m).2.phantom = false)
    (hr : (rewriteAtQuery search repl m).2.replaced = false) : (rewriteAtQuery search repl m).1 = m := by
  have := (visitList_post search repl none true { repl := repl } m).main rfl rfl (.inl rfl) he hp
  rcases this.2 with ⟨_, h⟩ | ⟨h, _⟩
  · exact h
  · unfold rewriteAtQuery at hr; rw [hr] at h; cases h

/-- **Frame (main theorem), for every module, path and replacement node:** a rewrite that replaced something (and did
    no phantom default write, see `not_C13_frame_full`) returns a module that is literally identical to the given one
    except for ONE statement: the statement at the search location, now the replacement node; or the function at
    `search[:-1]`, in whose signature only the parameter at the search location (in `args` / `kwonlyargs`) is replaced
    by the replacement's name and annotation while `posonlyargs`, `*args`, `**kwargs`, `kw_defaults` are unchanged and
    `defaults` keeps its length.  Every other statement, parameter, default, annotation, decorator, base class and body
    of the module is unchanged. -/
theorem frame_one_hole (search : Loc) (repl : Node) (m : Module)
    (he : (rewriteAtQuery search repl m).2.err = none) (hp : (rewriteAtQuery search repl m).2.phantom = false)
    (hr : (rewriteAtQuery search repl m).2.replaced = true) :
    OneHole (Slot search repl) none m (rewriteAtQuery search repl m).1 := by
  have := (visitList_post search repl none true { repl := repl } m).main rfl rfl (.inl rfl) he hp
  rcases this.2 with ⟨h, _⟩ | ⟨_, h⟩
  · unfold rewriteAtQuery at hr; rw [hr] at h; cases h
  · exact h

/-- **Frame without side condition** for replacement nodes that carry no value — an input *parameter*, an annotated
    attribute without value, and every `--input-eval` run (`name: Literal[…]` has no value): no default is ever written,
    so a successful rewrite changes exactly one hole. -/
theorem frame_one_hole_quiet (search : Loc) (repl : Node) (m : Module) (hq : quiet repl = true)
    (he : (rewriteAtQuery search repl m).2.err = none) (hr : (rewriteAtQuery search repl m).2.replaced = true) :
    OneHole (Slot search repl) none m (rewriteAtQuery search repl m).1 :=
  frame_one_hole search repl m he (visitList_quiet search none true { repl := repl } m ⟨rfl, hq⟩).1 hr

/-- non-vacuity: `g.p → f.b` (parameter to parameter) -/
example :
    let r := rewriteAtQuery ["f", "b"] (.arg ⟨"p", some "str"⟩)
      [.fn false "f" { args := [⟨"a", none⟩, ⟨"b", none⟩], defaults := ["1"] } [] [] none]
    quiet (.arg ⟨"p", some "str"⟩) = true ∧ r.2.err = none ∧ r.2.replaced = true ∧
      r.1.map sigView = [some ([("a", none), ("p", some "str")], ["1"])] := by decide

/-- the `--input-eval` replacement node is of that kind -/
theorem eval_node_is_quiet (cfg : Config) (search : Loc) (node : Node) (h : evalNode cfg search = .ok node) :
    quiet node = true := by
  unfold evalNode at h
  split at h
  · cases h
  · split at h
    · cases h
    · rename_i vs _
      cases hl : it2literal vs with
      | error e => rw [hl] at h; cases h
      | ok lit => rw [hl] at h; cases h; rfl

/-- corollary, in plain terms: the rewritten module has as many statements and all but one of them are unchanged -/
theorem frame_top_level (search : Loc) (repl : Node) (m : Module)
    (he : (rewriteAtQuery search repl m).2.err = none) (hp : (rewriteAtQuery search repl m).2.phantom = false)
    (hr : (rewriteAtQuery search repl m).2.replaced = true) :
    (rewriteAtQuery search repl m).1.length = m.length ∧
    ∃ i : Nat, ∀ j : Nat, j ≠ i → (rewriteAtQuery search repl m).1[j]? = m[j]? :=
  ⟨(frame_one_hole search repl m he hp hr).length_eq, (frame_one_hole search repl m he hp hr).all_but_one⟩

/-- **Frame (function bodies):** `visit_FunctionDef` never descends: name, body, decorators and return annotation of a
    function are returned as they are, whatever the search path. -/
theorem frame_function_body_never_visited (search : Loc) (parent : Option String) (argOk : Bool) (st : RState)
    (n : String) (a : Args) (body : List Stmt) (ds : List String) (ret : Option String) :
    ∃ a', (visit search parent argOk st (.fn false n a body ds ret)).1 = .fn false n a' body ds ret := by
  rw [visit]; exact ⟨_, rfl⟩

/-- non-vacuity of the frame hypotheses: `f.b ← b: int = 5` on `def f(a, b=1, c=2)` -/
example :
    let r := rewriteAtQuery ["f", "b"] (.stmt (.ann "b" "int" (some "5")))
      [.fn false "f" { args := [⟨"a", none⟩, ⟨"b", none⟩, ⟨"c", none⟩], defaults := ["1", "2"] } [] [] none]
    r.2.err = none ∧ r.2.phantom = false ∧ r.2.replaced = true ∧
      r.1.map sigView = [some ([("a", none), ("b", some "int"), ("c", none)], ["5", "2"])] := by decide

/-! ## slot -/

/-- **Slot (class attribute / module variable):** the annotated statement at the search location is replaced by the
    input's annotated assignment: the input's name, annotation (after the wrap template, see `slot_wrap`) and value. -/
theorem slot_statement (search : Loc) (parent : Option String) (argOk : Bool) (st : RState) (t0 a0 : String)
    (v0 : Option String) (t a : String) (v : Option String)
    (hh : hit search parent st (.ann t0 a0 v0) = true) (hr : st.repl = .stmt (.ann t a v)) :
    (visit search parent argOk st (.ann t0 a0 v0)).1 = .ann t a v ∧
    (visit search parent argOk st (.ann t0 a0 v0)).2.replaced = true := by
  rw [visit, if_pos hh]
  simp [place, placeAsStmt, hr]

/-- non-vacuity: `K.x` hits the attribute `x` of class `K` -/
example : hit ["K", "x"] (some "K") { repl := .stmt (.ann "b" "int" (some "5")) } (.ann "x" "str" none) = true := by decide

/-- **Slot (function parameter):** in the first not-yet-replaced function located at `search[:-1]`, the first parameter
    of `args` located at the search path is replaced by `asArg` of the replacement node — the input's name and
    annotation for an annotated assignment, the input parameter itself for a parameter — and `replaced` is set. -/
theorem slot_parameter (search : Loc) (parent : Option String) (st : RState) (name : String) (a : Args) (r : Arg) (j : Nat)
    (hrep : st.replaced = false) (herr : st.err = none) (hloc : parent.toList ++ [name] = search.dropLast)
    (hr : asArg st.repl = some r)
    (hj : a.args.findIdx? (fun x => (parent.toList ++ [name]) ++ [x.name] == search) = some j) :
    (visitFn search parent st name a).1.args = a.args.set j r ∧ (visitFn search parent st name a).2.replaced = true := by
  have hc : ¬ (st.replaced || st.err.isSome || (parent.toList ++ [name] != search.dropLast)) = true := by
    simp [hrep, herr, hloc]
  rw [visitFn_go hc, hr]
  obtain ⟨ds, _, hargs, _⟩ := prepare_args (parent.toList ++ [name]) a st.repl
  have e : (prepare (parent.toList ++ [name]) a st.repl).args.args = a.args := by rw [hargs]
  simp only []
  rw [e, replaceFirst_findIdx, replaceFirst_snd, hj]
  exact ⟨rfl, rfl⟩

/-- non-vacuity: the hypotheses of `slot_parameter` on `K.m.b` for `def m(self, a, b=1)` in class `K` -/
example : (some "K").toList ++ ["m"] = (["K", "m", "b"] : Loc).dropLast ∧
    asArg (.stmt (.ann "x" "int" none)) = some ⟨"x", some "int"⟩ ∧
    ([⟨"self", none⟩, ⟨"a", none⟩, ⟨"b", none⟩] : List Arg).findIdx? (fun x => ((some "K").toList ++ ["m"]) ++ [x.name] == ["K", "m", "b"]) = some 2 := by
  decide

/-- what `asArg` is: the input attribute's name and annotation; an input parameter unchanged -/
theorem slot_parameter_content (t a : String) (v : Option String) (r : Arg) :
    asArg (.stmt (.ann t a v)) = some { name := t, ann := some a } ∧ asArg (.arg r) = some r := ⟨rfl, rfl⟩

/-- **Slot (`--input-eval`):** the replacement node keeps the selected location's OWN name (the last component of the
    output path), carries `Literal[…]` of the evaluated value as annotation and no value. -/
theorem slot_eval_keeps_name (cfg : Config) (search : Loc) (node : Node) (vs : List Const)
    (hv : cfg.evalValue = some vs) (h : evalNode cfg search = .ok node) :
    ∃ lit, it2literal vs = .ok lit ∧ node = .stmt (.ann (search.getLast?.getD "") lit none) := by
  unfold evalNode at h
  split at h
  · cases h
  · rw [hv] at h
    simp only [] at h
    cases hl : it2literal vs with
    | error e => rw [hl] at h; cases h
    | ok lit => rw [hl] at h; cases h; exact ⟨lit, rfl, rfl⟩

/-- non-vacuity: `vals = ('a', 1)` evaluated for the output path `f.b` -/
example : nodeView (evalNode { inputEval := true, inputParam := "vals", outputParam := "f.b", evalValue := some [.str "a", .raw "1"] } ["f", "b"]) =
    some ("b", some "Literal['a', 1]", none) := by decide

/-- **Slot (wrap template):** the template changes only the annotation — to the template with the annotation
    substituted — and keeps name and value; a parameter without annotation is left as it is. -/
theorem slot_wrap (tmpl : String) (node node' : Node) (h : wrapNode tmpl node = .ok node') :
    (∀ t a v, node = .stmt (.ann t a v) → ∃ w, formatWrap tmpl a = .ok w ∧ node' = .stmt (.ann t w v)) ∧
    (∀ n a, node = .arg ⟨n, some a⟩ → ∃ w, formatWrap tmpl a = .ok w ∧ node' = .arg ⟨n, some w⟩) ∧
    (∀ n, node = .arg ⟨n, none⟩ → node' = .arg ⟨n, none⟩) := by
  refine ⟨?_, ?_, ?_⟩
  · intro t a v hn; subst hn
    simp only [wrapNode] at h
    cases hf : formatWrap tmpl a with
    | error e => rw [hf] at h; cases h
    | ok w => rw [hf] at h; cases h; exact ⟨w, rfl, rfl⟩
  · intro n a hn; subst hn
    simp only [wrapNode] at h
    cases hf : formatWrap tmpl a with
    | error e => rw [hf] at h; cases h
    | ok w => rw [hf] at h; cases h; exact ⟨w, rfl, rfl⟩
  · intro n hn; subst hn
    simp only [wrapNode] at h
    cases h; rfl

/-- non-vacuity: `Optional[{output_param}]` around `int` -/
example : nodeView (wrapNode "Optional[{output_param}]" (.stmt (.ann "x" "int" (some "5")))) = some ("x", some "Optional[int]", some "5") := by
  decide

/-! ## alignment -/

/-- **Alignment:** `visit_FunctionDef` keeps the length of `defaults` and overwrites at most ONE entry: the one that is
    right-aligned (`k = j - (len(args) - len(defaults))`) with the first parameter `j` carrying the input's name — and
    only when the input is an annotated assignment with a value.  (With the input's name equal to the selected
    parameter's name that parameter is the slot itself: `alignment_shared_name`.) -/
theorem alignment (search : Loc) (parent : Option String) (st : RState) (name : String) (a : Args) :
    (visitFn search parent st name a).1.defaults.length = a.defaults.length ∧
    ((visitFn search parent st name a).1.defaults = a.defaults ∨
     ∃ t ann val j, ∃ k : Nat, st.repl = .stmt (.ann t ann (some val)) ∧ a.args.findIdx? (·.name == t) = some j ∧
       (k : Int) = (j : Int) - ((a.args.length : Int) - (a.defaults.length : Int)) ∧ k < a.defaults.length ∧
       (visitFn search parent st name a).1.defaults = a.defaults.set k val) := by
  by_cases hc : (st.replaced || st.err.isSome || (parent.toList ++ [name] != search.dropLast)) = true
  · rw [visitFn_skip hc]; exact ⟨rfl, .inl rfl⟩
  · rw [visitFn_go hc]
    cases hr : asArg st.repl with
    | none => exact ⟨rfl, .inl rfl⟩
    | some r =>
      simp only []
      obtain ⟨ds, hlen, hargs, _⟩ := prepare_args (parent.toList ++ [name]) a st.repl
      refine ⟨by rw [hargs]; exact hlen, ?_⟩
      rcases prepare_alignment (parent.toList ++ [name]) a st.repl with h | ⟨t, ann, val, j, k, h1, h2, h3, h4, h5⟩
      · exact .inl h
      · exact .inr ⟨t, ann, val, j, k, h1, h2, h3, h4, h5⟩

/-- the `self`/`cls` rule of `_idx` (any function whose first parameter is `self`/`cls`, inside a class or at module
    level) cancels in the index computation: with and without a leading `self`/`cls` the index is `j - (n - d)` -/
theorem alignment_self_cls_cancels (fnLoc : Loc) (a : Args) (t : String) (j : Nat)
    (hj : a.args.findIdx? (·.name == t) = some j) :
    (idxOfName fnLoc a t).map (defaultIndex a) = some ((j : Int) - ((a.args.length : Int) - (a.defaults.length : Int))) := by
  rw [idxOfName_eq, hj]
  simp only [Option.map_some]
  rw [defaultIndex_of_position]

/-- … and `j - (n - d)` is CPython's alignment of `defaults` with the END of `posonlyargs + args`
    (`PyAst.Args.positionalDefault?`) on every well-formed signature -/
theorem alignment_index_is_right_aligned (a : Args) (j k : Nat) (hj : j < a.args.length)
    (hwf : a.defaults.length ≤ a.posonly.length + a.args.length)
    (hk : (k : Int) = (j : Int) - ((a.args.length : Int) - (a.defaults.length : Int))) :
    a.positionalDefault? (a.posonly.length + j) = a.defaults[k]? :=
  positionalDefault_eq a j k hj hwf hk

/-- with a shared name (`search = <function path> ++ [input name]`) the parameter found by name for the default
    transfer and the parameter found by `_location` for the replacement are the same one -/
theorem alignment_shared_name (fnLoc : Loc) (t : String) (l : List Arg) :
    l.findIdx? (fun x => fnLoc ++ [x.name] == fnLoc ++ [t]) = l.findIdx? (·.name == t) := by
  congr 1
  funext x
  simp

/-- non-vacuity, the case repaired by fix a5a844c: a method with `self`, target not the first parameter -/
example :
    ((visitFn ["K", "m", "c"] (some "K") { repl := .stmt (.ann "c" "int" (some "9")) } "m"
      { args := [⟨"self", none⟩, ⟨"a", none⟩, ⟨"b", none⟩, ⟨"c", none⟩], defaults := ["1", "2"] }).1.defaults) = ["1", "9"] := by
  decide

/-! ## the whole of `sync_property` -/

/-- **End to end:** whenever `sync_property` + emit succeed, the replacement node is the one computed from the input
    (`find_in_ast` or the evaluated `Literal`, then the wrap template), and — absent a phantom default write — the
    written module is the given output module with exactly one hole `Slot`. -/
theorem sync_property_sound (cfg : Config) (input output out : Module) (h : syncProperty cfg input output = .ok out) :
    ∃ repl, replacementNode cfg (stripSplit cfg.outputParam) input = .ok repl ∧
      ((rewriteAtQuery (stripSplit cfg.outputParam) repl output).2.phantom = false →
        OneHole (Slot (stripSplit cfg.outputParam) repl) none output out) := by
  unfold syncProperty at h
  cases hr : replacementNode cfg (stripSplit cfg.outputParam) input with
  | error e => rw [hr] at h; cases h
  | ok repl =>
    rw [hr] at h
    refine ⟨repl, rfl, fun hp => ?_⟩
    simp only [] at h
    unfold rewriteChecked at h
    simp only [] at h
    cases he : (rewriteAtQuery (stripSplit cfg.outputParam) repl output).2.err with
    | some e => rw [he] at h; cases h
    | none =>
      rw [he] at h
      cases hrep : (rewriteAtQuery (stripSplit cfg.outputParam) repl output).2.replaced with
      | false => simp [hrep] at h
      | true =>
        simp only [hrep] at h
        cases hpo : (rewriteAtQuery (stripSplit cfg.outputParam) repl output).2.poisoned with
        | true => simp [hpo] at h
        | false =>
          simp [hpo] at h
          cases h
          exact frame_one_hole _ repl output he hp hrep

/-- non-vacuity: `A.x → K.m.b` with a wrap template succeeds, without phantom write -/
example :
    let cfg : Config := { inputParam := "A.x", outputParam := "K.m.b", wrap := some "Optional[{output_param}]" }
    let input : Module := [.cls "A" [] [] [.ann "x" "int" (some "5")] []]
    let output : Module := [.cls "K" [] [] [.fn false "m" { args := [⟨"self", none⟩, ⟨"a", none⟩, ⟨"b", none⟩], defaults := ["1"] } [] [] none] []]
    isOk (syncProperty cfg input output) = true ∧
    (rewriteAtQuery ["K", "m", "b"] (.stmt (.ann "x" "Optional[int]" (some "5"))) output).2.phantom = false := by decide

/-! ## `find_in_ast`: where the lookup of the input property is right, and where it is not -/

/-- **Slot (input lookup), partial:** `C.x` finds the annotated attribute `x` of class `C` when no `FunctionDef` (and
    nothing else named `C`) stands before the class at module level, and, inside the class, nothing named `x` and no
    method with a parameter named `x` stands before the attribute. -/
theorem find_attr_correct_partial (c x ann : String) (v : Option String) (pre post bpre bpost : List Stmt)
    (bs ks ds : List String) (hx : isNameText x = true) (hcx : c ≠ x)
    (hpre : pre.all (passesTop c) = true) (hbpre : bpre.all (passesBody x) = true) :
    findInAst [c, x] (pre ++ .cls c bs ks (bpre ++ .ann x ann v :: bpost) ds :: post) = .ok (some (.stmt (.ann x ann v))) := by
  unfold findInAst
  simp only [List.isEmpty_cons, Bool.false_eq_true, if_false, List.length_cons, List.length_nil]
  rw [whileLoop]
  simp only [List.isEmpty_cons, Bool.false_and, Bool.false_eq_true, if_false]
  rw [forLoop_top pre _ post hpre rfl (by intros; simp)]
  simp only [Stmt.defName?, Stmt.body]
  rw [whileLoop]
  have : (some c == some x) = false := by simp [hcx]
  simp only [List.isEmpty_nil, Bool.true_and, Option.bind, Stmt.defName?, this, Bool.false_eq_true, if_false]
  rw [forLoop_body bpre bpost hx hbpre]

/-- non-vacuity: an import, a constant, then the class with a docstring, an attribute and a method -/
example : findInAst ["A", "x"]
    [.other "import os", .assign ["K"] "1",
     .cls "A" [] [] [.strExpr "doc", .ann "y" "str" none, .ann "x" "int" (some "5"), .fn false "m" { args := [⟨"self", none⟩] } [] [] none] []] =
    .ok (some (.stmt (.ann "x" "int" (some "5")))) :=
  find_attr_correct_partial "A" "x" "int" (some "5") [.other "import os", .assign ["K"] "1"] [] [.strExpr "doc", .ann "y" "str" none] _ [] [] []
    (by decide) (by decide) (by decide) (by decide)

/-- full claim about the lookup: a dotted path `f.p` selects the parameter `p` of the function `f` -/
def C13_find_full : Prop :=
  ∀ (m : Module) (f p : String) (a : Arg), intendedParam f p m = some a → findInAst [f, p] m = .ok (some (.arg a))

/-- **Negation (input lookup):** `find_in_ast` does not look at function names — `g.p` on
    `def h(p: str): …` / `def g(p: int): …` returns `h`'s parameter.  (A `FunctionDef` before the class likewise derails
    `C.x` into `None`, and keyword-only parameters are never found: `known_findings.d/C13.txt`.) -/
theorem not_C13_find_full : ¬ C13_find_full := by
  intro h
  have := h [.fn false "h" { args := [⟨"p", some "str"⟩] } [] [] none, .fn false "g" { args := [⟨"p", some "int"⟩] } [] [] none]
    "g" "p" ⟨"p", some "int"⟩ (by decide)
  have := congrArg foundAnn this
  revert this; decide

/-! ## the frame does not hold everywhere -/

/-- full frame claim: whatever the rewrite replaced, the module is unchanged except for one `Slot` hole -/
def C13_frame_full : Prop :=
  ∀ (search : Loc) (repl : Node) (m : Module),
    (rewriteAtQuery search repl m).2.err = none → (rewriteAtQuery search repl m).2.replaced = true →
    OneHole (Slot search repl) none m (rewriteAtQuery search repl m).1

def wMod : Module :=
  [.fn false "f" { args := [⟨"a", none⟩, ⟨"b", none⟩], defaults := ["1"] } [] ["overload"] none,
   .fn false "f" { args := [⟨"a", none⟩, ⟨"c", none⟩], defaults := ["2"] } [] [] none]

/-- **Negation (frame):** two definitions share the dotted path `f`, only the later one has the selected parameter `c`,
    and the input `b: int = 5` shares its name with a parameter of the EARLIER one: `visit_FunctionDef` overwrites the
    default of `b` there before it finds that `c` is not in that definition
    (`def f(a, b=1)` / `def f(a, c=2)` ⇒ `def f(a, b=5)` / `def f(a, b: int = 2)`): two statements change. -/
theorem not_C13_frame_full : ¬ C13_frame_full := by
  intro h
  obtain ⟨i, hi⟩ := (h ["f", "c"] (.stmt (.ann "b" "int" (some "5"))) wMod (by decide) (by decide)).all_but_one
  have h0 : i = 0 := by
    apply Classical.byContradiction
    intro hne
    have := congrArg (fun o => o.bind sigView) (hi 0 (fun e => hne e.symm))
    revert this; decide
  have h1 : i = 1 := by
    apply Classical.byContradiction
    intro hne
    have := congrArg (fun o => o.bind sigView) (hi 1 (fun e => hne e.symm))
    revert this; decide
  omega

/-- full claim "valid paths always work": an input parameter can be synchronised into a class attribute -/
def C13_total_full : Prop :=
  ∀ (input output : Module) (f p c x : String) (a : Arg) (t : String × Option String),
    intendedParam f p input = some a → intendedAttr c x output = some t →
    isOk (syncProperty { inputParam := f ++ "." ++ p, outputParam := c ++ "." ++ x } input output) = true

/-- **Negation (slot, parameter → attribute):** with a function parameter as input and a class attribute as output the
    rewrite puts an `ast.arg` node into the class body; the result is not a Python AST (`Err.argInBody`; on the real
    code `black` raises `InvalidInput`, or the text glued to the previous line happens to parse and changes THAT line). -/
theorem not_C13_slot_param_to_attr : ¬ C13_total_full := by
  intro h
  have := h [.fn false "g" { args := [⟨"p", some "str"⟩] } [] [] none]
    [.cls "K" [] [] [.ann "z" "int" (some "1"), .ann "y" "str" none] []] "g" "p" "K" "y" ⟨"p", some "str"⟩ ("str", none)
    (by decide) (by decide)
  revert this; decide

/-- full claim over files: the written output file differs from the read one in one `Slot` hole only -/
def C13_files_frame_full : Prop :=
  ∀ (cfg : Config) (fs fs' : Files), syncProperties cfg fs = .ok fs' →
    ∃ repl, OneHole (Slot (stripSplit cfg.outputParam) repl) none fs.output fs'.output

def digest : Stmt → Option String
  | .strExpr d => some d
  | .fn _ _ a _ _ _ => some (String.intercalate "," (a.args.map fun x => x.name ++ ":" ++ x.ann.getD ""))
  | _ => none

def outDigest : Except Err Files → Option (List (Option String))
  | .ok fs => some (fs.output.map digest)
  | .error _ => none

def wFiles : Files :=
  { input := [.cls "A" [] [] [.ann "x" "int" none] []],
    output := [.strExpr "Usage:\n\n    code(block)\nend.", .fn false "f" { args := [⟨"a", none⟩, ⟨"b", none⟩] } [] [] none] }

/-- **Negation (frame, module docstring):** every parse re-indents the module docstring and flattens the relative
    indentation inside it (`reindent` left-strips each line), so a run changes the docstring statement as well as the
    selected slot. -/
theorem not_C13_frame_docstring : ¬ C13_files_frame_full := by
  intro h
  have hd : outDigest (syncProperties { inputParam := "A.x", outputParam := "f.b" } wFiles) =
      some [some "\n    Usage:\n    \n    code(block)\n    end.\n    ", some "a:,x:int"] := by decide
  cases hs : syncProperties { inputParam := "A.x", outputParam := "f.b" } wFiles with
  | error e => rw [hs] at hd; cases hd
  | ok fs' =>
    rw [hs] at hd
    obtain ⟨repl, ho⟩ := h _ _ _ hs
    obtain ⟨i, hi⟩ := ho.all_but_one
    simp only [outDigest, Option.some.injEq] at hd
    have key : ∀ j : Nat, j ≠ i → (fs'.output.map digest)[j]? = (wFiles.output.map digest)[j]? := by
      intro j hj
      rw [List.getElem?_map, List.getElem?_map, hi j hj]
    rw [hd] at key
    have h0 : i = 0 := by
      apply Classical.byContradiction
      intro hne
      have := key 0 (fun e => hne e.symm)
      revert this; decide
    have h1 : i = 1 := by
      apply Classical.byContradiction
      intro hne
      have := key 1 (fun e => hne e.symm)
      revert this; decide
    omega

/-! ## several (input-param, output-param) pairs in one call

Model: `CddVerif/Model/SyncPropertiesMulti.lean` — the loop `for input_param, output_param in zip(…)` of
`sync_properties` (`loopPairs`/`syncAll`) on trees that carry their STORED `_location`/`_idx` (the output tree is not
re-annotated between the pairs) and the identity of input nodes (the wrap template assigns to the input node itself).
All statements below are proved by induction over the pair list. -/

/-- the state the loop starts from: both files parsed and annotated -/
def initState (fs : Files) : MState :=
  { input := annotateInput (astParse fs.input), output := annotateOutput (astParse fs.output) }

/-- **No pair is skipped, all or nothing:** a call that writes the output file has run `stepPair` successfully for
    EVERY pair of the list, in order (`Steps`), each on the trees left by the previous one; the written module is the
    final output tree without its attributes; the input file is as it was.  (If any pair raises, nothing is written:
    `syncFilesAll` is an `Except`.) -/
theorem multi_every_pair_applied (ev : Bool) (wrap : Option String) (ps : List Pair) (fs fs' : Files)
    (h : syncFilesAll ev wrap ps fs = .ok fs') :
    fs'.input = fs.input ∧ ∃ ms', Steps ev wrap (initState fs) ps ms' ∧ ms'.poisoned = false ∧ fs'.output = eraseL ms'.output := by
  unfold syncFilesAll syncAll at h
  cases hl : loopPairs ev wrap { input := annotateInput (astParse fs.input), output := annotateOutput (astParse fs.output) } ps with
  | error e => rw [hl] at h; cases h
  | ok ms' =>
    rw [hl] at h
    simp only [] at h
    cases hp : ms'.poisoned with
    | true => simp [hp, Except.map] at h
    | false =>
      simp only [hp, Bool.false_eq_true, if_false, Except.map] at h
      cases h
      exact ⟨rfl, ms', (loopPairs_iff_steps ev wrap ps _ ms').mp hl, hp, rfl⟩

/-- **One pair (the induction step):** a successful pair = the replacement node computed from the input tree as it
    stands (with the assignment to its annotation: `AliasUpd`), then exactly ONE hole in the output tree, at a node that
    CARRIES the pair's output path as its `_location` (`SlotT`): a whole statement replaced by the node, or one parameter
    replaced by its `ast.arg` form — name and annotation of the input (wrapped / `Literal`), `defaults` same length. -/
theorem multi_each_pair_is_one_slot (ev : Bool) (wrap : Option String) (ms ms1 : MState) (p : Pair)
    (h : stepPair ev wrap ms p = .ok ms1) (hp : ms1.phantom = false) :
    ∃ node msw, replacementA ev wrap ms p = .ok (node, msw) ∧ AliasUpd ms msw ∧ ms1.input = msw.input ∧
      OneHoleT (SlotT (stripSplit p.outputParam) node) msw.output ms1.output := by
  obtain ⟨node, msw, hr, hal, hin, _, hole⟩ := stepPair_spec h
  exact ⟨node, msw, hr, hal, hin, hole hp⟩

/-- **Frame and slots of a whole call (induction over the pair list):** the final trees arise from the initial ones by
    one `AliasUpd` + one `SlotT` hole PER PAIR, in order; everything a hole does not touch — statements, parameters,
    defaults, annotations and the stored attributes — is carried over literally from pair to pair. -/
theorem multi_frame_chain (ev : Bool) (wrap : Option String) (ps : List Pair) (ms ms' : MState)
    (h : loopPairs ev wrap ms ps = .ok ms') (hp : ms'.phantom = false) : FrameChain ev wrap ms ps ms' :=
  steps_chain ((loopPairs_iff_steps ev wrap ps ms ms').mp h) hp

/-- without a template, and under `--input-eval`, no annotation is assigned behind the back of the rewrite -/
theorem multi_no_alias_assignment (ev : Bool) (wrap : Option String) (hw : wrap = none ∨ ev = true) (ms msw : MState) (p : Pair)
    (node : TNode) (h : replacementA ev wrap ms p = .ok (node, msw)) : msw = ms := by
  rcases hw with hw | hw
  · subst hw; exact replacementA_no_wrap h
  · subst hw; exact replacementA_eval h

/-- **Frame of a whole call, in plain terms** (no template, or `--input-eval`): the written module has as many
    statements as the parsed output file, and all of them but at most ONE PER PAIR are literally unchanged. -/
theorem multi_frame_top_level (ev : Bool) (wrap : Option String) (hw : wrap = none ∨ ev = true) (ps : List Pair)
    (input output out : Module) (h : syncAll ev wrap ps input output = .ok out)
    (hp : ∀ ms', loopPairs ev wrap { input := annotateInput (astParse input), output := annotateOutput (astParse output) } ps = .ok ms' →
      ms'.phantom = false) :
    out.length = (astParse output).length ∧
    ∃ I : List Nat, I.length ≤ ps.length ∧ ∀ j : Nat, j ∉ I → out[j]? = (astParse output)[j]? := by
  unfold syncAll at h
  cases hl : loopPairs ev wrap { input := annotateInput (astParse input), output := annotateOutput (astParse output) } ps with
  | error e => rw [hl] at h; cases h
  | ok ms' =>
    rw [hl] at h
    simp only [] at h
    cases hpo : ms'.poisoned with
    | true => simp [hpo] at h
    | false =>
      simp only [hpo, Bool.false_eq_true, if_false] at h
      cases h
      obtain ⟨hlen, I, hI, hrest⟩ := steps_top_level hw ((loopPairs_iff_steps ev wrap ps _ ms').mp hl) (hp ms' hl)
      refine ⟨?_, I, hI, fun j hj => ?_⟩
      · rw [eraseL_length, hlen]
        show (annotateOutput (astParse output)).length = _
        rw [← eraseL_length, annotateOutput, eraseL_annotateL]
      · rw [eraseL_getElem?, hrest j hj]
        show ((annotateOutput (astParse output))[j]?).map eraseS = _
        rw [← eraseL_getElem?, annotateOutput, eraseL_annotateL]

/-- non-vacuity: three distinct pairs into one method (the fixed corner call corpus/C13/m04) succeed without phantom write -/
example :
    let input : Module := [.cls "A" [] [] [.ann "x" "int" none, .ann "y" "str" (some "'s'"), .ann "z" "float" none] []]
    let output : Module := [.cls "K" [] [] [.fn false "m" { args := [⟨"self", none⟩, ⟨"a", none⟩, ⟨"b", none⟩, ⟨"c", none⟩], defaults := ["1", "2"] } [] [] none] []]
    let ps : List Pair := [⟨"A.x", "K.m.a", none⟩, ⟨"A.y", "K.m.b", none⟩, ⟨"A.z", "K.m.c", none⟩]
    (match syncAll false none ps input output with
      | .ok [.cls _ _ _ [s] _] => sigView s
      | _ => none) = some ([("self", none), ("x", some "int"), ("y", some "str"), ("z", some "float")], ["1", "2"]) ∧
    (match loopPairs false none { input := annotateInput input, output := annotateOutput output } ps with
      | .ok ms' => ms'.phantom
      | .error _ => true) = false := by decide

/-- **Why the same output cannot be selected twice:** the parameter built from an annotated assignment (and from the
    `--input-eval` node) is a NEW `ast.arg` without `_location`, `_idx` and identity; a hole needs a node that carries the
    path (`SlotT`), so that parameter can never be selected again.  An input *parameter* is put in as the same object and
    keeps the attributes it has in the input file. -/
theorem multi_built_parameter_has_no_location (l : Option Loc) (i : Option NodeId) (t a : String) (v : Option String) (r : TArg) :
    (asArgA (.stmt (.ann l i t a v)) = some r → r.loc = none ∧ r.idx = none ∧ r.id = none ∧ r.name = t ∧ r.ann = some a) ∧
    asArgA (.arg r) = some r := by
  refine ⟨fun h => ?_, rfl⟩
  simp only [asArgA, Option.some.injEq] at h
  subst h; exact ⟨rfl, rfl, rfl, rfl, rfl⟩

/-- **Two pairs into one parameter list (side condition made explicit):** if the two paths are carried by two
    parameters (`j`, `k` the first carrying `P₁`, `P₂`), the paths differ, and the node put in by the first pair does not
    carry the second path (it does not when it was built from an assignment; a moved input parameter carries its
    INPUT-side location), then both parameters are replaced and nothing else of the list changes. -/
theorem multi_two_params_one_function (P₁ P₂ : Loc) (r₁ r₂ : TArg) (l : List TArg) (j k : Nat)
    (hj : l.findIdx? (fun x => x.loc == some P₁) = some j) (hk : l.findIdx? (fun x => x.loc == some P₂) = some k)
    (hne : P₁ ≠ P₂) (hfresh : r₁.loc ≠ some P₂) :
    (replaceFirstA P₂ r₂ (replaceFirstA P₁ r₁ l).1).1 = (l.set j r₁).set k r₂ := by
  rw [replaceFirstA_findIdx P₁, hj]
  simp only []
  rw [replaceFirstA_findIdx P₂]
  obtain ⟨x, hx, hpx⟩ := findIdx?_some_getElem _ l j hj
  have hx2 : (x.loc == some P₂) = false := by
    simp only [beq_iff_eq] at hpx
    simp [hpx, hne]
  have hr2 : (r₁.loc == some P₂) = false := by simp [hfresh]
  rw [findIdx?_set_irrelevant (fun x => x.loc == some P₂) l j r₁ x hx hx2 hr2, hk]

/-- what a call leaves in the output file, as decidable data (for the witnesses) -/
def outView : Except Err Module → Option (List (List (String × Option String)))
  | .ok m => some (m.map fun s => match s with
      | .fn _ _ a _ _ _ => a.args.map fun x => (x.name, x.ann)
      | .cls _ _ _ b _ => b.filterMap fun t => match t with
          | .ann t a _ => some (t, some a)
          | _ => none
      | _ => [])
  | .error _ => none

/-- full claim "the last pair wins": selecting one output location twice works -/
def C13_multi_last_wins_full : Prop :=
  ∀ (input output : Module) (i₁ i₂ o : String), isOk (syncAll false none [⟨i₁, o, none⟩] input output) = true →
    isOk (syncAll false none [⟨i₂, o, none⟩] input output) = true →
    isOk (syncAll false none [⟨i₁, o, none⟩, ⟨i₂, o, none⟩] input output) = true

/-- **Negation (one output selected twice):** `A.x → f.b, A.y → f.b` — each pair alone works, together the second one
    raises `AssertionError` ("Failed to update …") and nothing is written: the `b` built by the first pair has no
    `_location`.  Distinct outputs are a necessary side condition. -/
theorem multi_same_output_twice_raises : ¬ C13_multi_last_wins_full ∧
    errOf (syncAll false none [⟨"A.x", "f.b", none⟩, ⟨"A.y", "f.b", none⟩]
      [.cls "A" [] [] [.ann "x" "int" none, .ann "y" "str" none] []]
      [.fn false "f" { args := [⟨"a", none⟩, ⟨"b", none⟩], defaults := ["1"] } [] [] none]) = some .assertion := by
  refine ⟨fun h => ?_, by decide⟩
  have := h [.cls "A" [] [] [.ann "x" "int" none, .ann "y" "str" none] []]
    [.fn false "f" { args := [⟨"a", none⟩, ⟨"b", none⟩], defaults := ["1"] } [] [] none] "A.x" "A.y" "f.b" (by decide) (by decide)
  revert this; decide

/-- full claim "wrapped once": one input attribute for two parameters under a template gives BOTH the template applied
    once to the input's annotation -/
def C13_multi_wrap_full : Prop :=
  ∀ (input output : Module) (c x ann : String) (v : Option String) (f₁ p₁ f₂ p₂ tmpl w : String) (out : Module),
    intendedAttr c x input = some (ann, v) → formatWrap tmpl ann = .ok w →
    syncAll false (some tmpl) [⟨c ++ "." ++ x, f₁ ++ "." ++ p₁, none⟩, ⟨c ++ "." ++ x, f₂ ++ "." ++ p₂, none⟩] input output = .ok out →
    intendedParam f₁ x out = some ⟨x, some w⟩ ∧ intendedParam f₂ x out = some ⟨x, some w⟩

def wIn5 : Module := [.cls "A" [] [] [.ann "x" "int" (some "5")] []]
def wOut5 : Module :=
  [.fn false "f" { args := [⟨"a", none⟩, ⟨"b", none⟩], defaults := ["1"] } [] [] none, .fn false "h" { args := [⟨"c", none⟩] } [] [] none]
def wPairs5 : List Pair := [⟨"A" ++ "." ++ "x", "f" ++ "." ++ "b", none⟩, ⟨"A" ++ "." ++ "x", "h" ++ "." ++ "c", none⟩]

/-- **Negation (one input for several outputs, with a template):** the template is applied by assigning to the INPUT
    node's annotation, so the second use wraps it again: `A.x → f.b, A.x → h.c` with `Optional[{output_param}]` gives
    `f(a, x: Optional[int] = 1)` and `h(x: Optional[Optional[int]])` (corpus/C13/m05).  "No input node used twice under a
    template" is a necessary side condition of the slot clause. -/
theorem not_C13_multi_wrap_once : ¬ C13_multi_wrap_full := by
  intro h
  have key : (match syncAll false (some "Optional[{output_param}]") wPairs5 wIn5 wOut5 with
      | .ok m => (intendedParam "h" "x" m).map fun a => (a.name, a.ann)
      | .error _ => none) = some ("x", some "Optional[Optional[int]]") := by decide
  cases hs : syncAll false (some "Optional[{output_param}]") wPairs5 wIn5 wOut5 with
  | error e => rw [hs] at key; cases key
  | ok out =>
    rw [hs] at key
    simp only [] at key
    have := (h wIn5 wOut5 "A" "x" "int" (some "5") "f" "b" "h" "c" "Optional[{output_param}]" "Optional[int]" out
      (by decide) (by rfl) hs).2
    rw [this] at key
    revert key; decide

/-- full claim "every pair reaches the location its path names in the OUTPUT FILE": after `i₁ → K.y, i₂ → A.x` the class
    `A` of the output file holds the second input -/
def C13_multi_original_slots_full : Prop :=
  ∀ (input output out : Module) (c₁ x₁ c₂ x₂ ann₂ : String) (v₂ : Option String) (k y a x : String),
    intendedAttr c₂ x₂ input = some (ann₂, v₂) →
    syncAll false none [⟨c₁ ++ "." ++ x₁, k ++ "." ++ y, none⟩, ⟨c₂ ++ "." ++ x₂, a ++ "." ++ x, none⟩] input output = .ok out →
    intendedAttr a x₂ out = some (ann₂, v₂)

def wIn7 : Module := [.cls "A" [] [] [.ann "x" "int" (some "5")] [], .cls "B" [] [] [.ann "z" "str" none] []]
def wOut7 : Module := [.cls "K" [] [] [.ann "y" "float" none] [], .cls "A" [] [] [.ann "x" "bytes" none] []]

/-- **Negation (stale `_location` of a moved input node):** `A.x → K.y, B.z → A.x` — the `AnnAssign` moved into class
    `K` by the first pair still carries `_location = ['A','x']`, is visited first and is replaced AGAIN by the second pair:
    `K` ends with `z: str`, the real `A.x` stays `x: bytes` (corpus/C13/m07).  "No node put in by an earlier pair carries a
    later output path" is a necessary side condition (`multi_two_params_one_function` has it as `hfresh`). -/
theorem not_C13_multi_original_slots : ¬ C13_multi_original_slots_full := by
  intro h
  have key : outView (syncAll false none [⟨"A" ++ "." ++ "x", "K" ++ "." ++ "y", none⟩, ⟨"B" ++ "." ++ "z", "A" ++ "." ++ "x", none⟩] wIn7 wOut7) =
      some [[("z", some "str")], [("x", some "bytes")]] := by decide
  cases hs : syncAll false none [⟨"A" ++ "." ++ "x", "K" ++ "." ++ "y", none⟩, ⟨"B" ++ "." ++ "z", "A" ++ "." ++ "x", none⟩] wIn7 wOut7 with
  | error e => rw [hs] at key; cases key
  | ok out =>
    have hi := h wIn7 wOut7 out "A" "x" "B" "z" "str" none "K" "y" "A" "x" (by decide) hs
    have key2 : (match syncAll false none [⟨"A" ++ "." ++ "x", "K" ++ "." ++ "y", none⟩, ⟨"B" ++ "." ++ "z", "A" ++ "." ++ "x", none⟩] wIn7 wOut7 with
        | .ok m => intendedAttr "A" "z" m
        | .error _ => none) = none := by decide
    rw [hs] at key2
    simp only [] at key2
    rw [hi] at key2
    cases key2

end C13
