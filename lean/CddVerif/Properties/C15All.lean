import CddVerif.Proofs.DocSplitAll
import CddVerif.Properties.C15Struct
/-!
# C15 — the split of **every** string: ranges, index safety, and when the two indices are ordered

`Properties/C15.lean` proves the slice algebra (`slice_partition`: the slices `original[:start]`, `original[start:last]`,
`original[last:]` concatenate to the original iff `start = −1 ∨ last = −1 ∨ start ≤ last`) and `Properties/C15Struct.lean`
computes the pair `(start, last)` exactly on structured docstrings.  This file has no shape hypothesis: every theorem is
about an arbitrary `d : Str` and the model's `DocSplit.idxPair` (`_get_token_start_idx`, `_get_token_last_idx` of
`cdd/shared/docstring_utils.py`).

* **Ranges** (`start_range`, `idx_range`): `start` is `−1` or the first index of a newline-terminated line, so `start < |d|`;
  `last ∈ [−1, |d| + 2]`.  The bound `|d|` does **not** hold for `last`: the line loop of
  `_get_token_last_idx_if_no_next_token` answers `|d| + 1` or `|d| + 2` on a NumPy section that ends the docstring
  (`last_beyond_end_witness`, `last_beyond_end_witness2`; Python slices clamp, so nothing raises).
* **Index safety** (`last_raises_iff`, `last_typeError`, `last_indexError`, `last_never_raises_without_dash`):
  `_get_token_last_idx` raises exactly when the index computed by `_last_doc_str_token` is not inside the string (`= |d|`:
  `TypeError`, `> |d|`: `IndexError`) — which only its numpydoc arithmetic `i − len(stack) + len(penultimate_stack)` can
  produce: a docstring without `-` never raises.  `_get_token_start_idx` is total in the model (it never raises).
* **Exits** (`last_exits`): on every string on which it returns, the answer of `_get_token_last_idx` is `−1`, or comes from
  one of three exits, each with a positional bound.
* **Ordering** (`idx_ordered_all`, `C15_split_ordered`): for the decidable condition `DSA.Ordered d` —
  no token word, or no section start, or (A₁ or A₂) and B, where
  (A₁, *near*) `start ≤ (end of the line of the last token word) + 1`: the section starts no later than the line after the
  line that holds the last token word (in particular whenever the last token word is not before the section start);
  (A₂, *absorbed*) the line after the line of the last token word is blank or indented, `_get_end_of_last_found` does not
  take its numpydoc exit, and the line of the last token word is not a run of dashes;
  (B) the line of the last token word is not the heading `Raises:`, unless the section starts on an earlier line —
  the indices are ordered and the three slices concatenate to the original.  No other hypothesis; in particular nothing
  about the shape of header, section or footer.
* **Each clause is needed** (`clauseA_needed`, `clauseA_needed_returns`, `clauseB_needed`): concrete docstrings violating
  exactly one of A (= A₁ ∨ A₂) and B on which the model returns `start > last ≥ 0` and the slices do not concatenate;
  evaluated by the kernel through `DSS.idxPairF` (proved equal to `idxPair` on every string) and replayed on the real
  walkers, which return the same pairs.  `Ordered` is sufficient, not necessary (`ordered_not_necessary`);
  `unordered_classified` is the contrapositive — every unordered string violates A or B.
-/
namespace C15All
open Py DocUtils DocSplit DSS DSA C15

/-- `cs!"abc"` = `['a','b','c']` (character-list literal, evaluates under `decide`) -/
local macro:max "cs!" s:str : term => do
  let cs := s.getString.toList
  let elems := cs.map (fun c => Lean.Syntax.mkCharLit c)
  `(([$(elems.toArray),*] : List Char))

/-! ## ranges -/

/-- **Range of `_get_token_start_idx` (every string):** `−1`, or an index `r < |d|` that begins a line (`r = 0` or the
    character before it is a newline) which is terminated by a newline at some `q ≥ r` -/
theorem start_range (d : Str) :
    tokenStartIdx d.toArray = -1 ∨
      ∃ r q : Nat, tokenStartIdx d.toArray = (r : Int) ∧ r ≤ q ∧ q < d.length ∧ d[q]? = some '\n' ∧ (r = 0 ∨ d[r - 1]? = some '\n') :=
  tokenStartIdx_range d

/-- **The exits of `_get_token_last_idx` (every string on which it returns).**  No token word: `−1`.  Otherwise, with `lf` the
    index of the last token word (inside the string) and `L` the line start computed by `_get_start_of_last_found` (`0` for
    `None`), the answer `l` comes from one of: (*next line / absorbed*) `started ≤ l ≤ |d|` for an index `started` that lies
    beyond the line of `lf` or beyond every newline of the string — the latter whenever `AbsorbHyp` holds (no numpydoc exit of
    `_get_end_of_last_found`, white space after the line of `lf`); (*dashes*) `(end of the line of lf) + 2 ≤ l ≤ |d| + 2`, the
    line at `L` being a non-empty run of dashes; (*`Raises:` short-circuit*) `l = L − 1`, the line at `L` being the heading
    `Raises:`. -/
theorem last_exits (d : Str) (l : Int) (h : tokenLastIdx d.toArray = .ok l) :
    (lastDocStrToken d.toArray = none ∧ l = -1) ∨
    ∃ (lf L : Nat) (lfs : Option Int), lastDocStrToken d.toArray = some (lf : Int) ∧ lf < d.length
      ∧ startOfLastFound d.toArray lf = .ok lfs ∧ lfs.getD 0 = (L : Int) ∧ L ≤ lf ∧
      ((∃ started : Nat, (started : Int) ≤ l ∧ l ≤ d.length
          ∧ (nlFrom d lf + 1 ≤ started ∨ ∀ q, d[q]? = some '\n' → q < started)
          ∧ (AbsorbHyp d lf lfs → ∀ q, d[q]? = some '\n' → q < started))
       ∨ ((nlFrom d lf : Int) + 2 ≤ l ∧ l ≤ (d.length : Int) + 2 ∧ L < nlFrom d L ∧ allDashes (lineAt d L) = true)
       ∨ (l = (L : Int) - 1 ∧ lstrip (lineAt d L) = raisesLit)) :=
  tokenLastIdx_cases d l h

/-- **Every index returned is within reach of the string:** `start ∈ {−1} ∪ [0, |d|)` and `last ∈ [−1, |d| + 2]` -/
theorem idx_range (d : Str) (s l : Int) (h : idxPair d = .ok (s, l)) :
    (s = -1 ∨ (0 ≤ s ∧ s < d.length)) ∧ -1 ≤ l ∧ l ≤ (d.length : Int) + 2 := by
  obtain ⟨hs, hl⟩ := idxPair_inv d s l h
  constructor
  · rcases tokenStartIdx_range d with h1 | ⟨r, q, h1, h2, h3, _⟩
    · left; rw [hs, h1]
    · right; rw [hs, h1]; omega
  · rcases tokenLastIdx_cases d l hl with ⟨_, h1⟩ | ⟨lf, L, lfs, _, _, _, _, _, hc⟩
    · omega
    · rcases hc with ⟨st, h1, h2, _⟩ | ⟨h1, h2, _⟩ | ⟨h1, _⟩ <;> omega

/-- `last ≤ |d|` unless the answer comes from the line loop of `_get_token_last_idx_if_no_next_token` (which then lies
    beyond the line of the last token word by at least two) -/
theorem last_le_length_or_dashes (d : Str) (l : Int) (h : tokenLastIdx d.toArray = .ok l) :
    l ≤ d.length ∨ ∃ lf : Nat, lastDocStrToken d.toArray = some (lf : Int) ∧ (nlFrom d lf : Int) + 2 ≤ l := by
  rcases tokenLastIdx_cases d l h with ⟨_, h1⟩ | ⟨lf, L, lfs, hlf, _, _, _, _, hc⟩
  · left; omega
  · rcases hc with ⟨st, h1, h2, _⟩ | ⟨h1, h2⟩ | ⟨h1, _⟩
    · left; omega
    · right; exact ⟨lf, hlf, h1⟩
    · left; omega

/-- the bound `|d|` fails for `last`: a NumPy section that ends the docstring — `last = |d| + 1` -/
theorem last_beyond_end_witness :
    idxPair cs!"Returns\n-------\n" = .ok (0, 17) ∧ (cs!"Returns\n-------\n").length = 16 :=
  ⟨idxPair_of_F _ _ (by decide +kernel), by decide⟩

/-- … and `last = |d| + 2` (the upper bound of `idx_range` is attained) -/
theorem last_beyond_end_witness2 :
    idxPair cs!"Returns\n-------\n\na:" = .ok (0, 21) ∧ (cs!"Returns\n-------\n\na:").length = 19 :=
  ⟨idxPair_of_F _ _ (by decide +kernel), by decide⟩

/-! ## index safety -/

/-- `lastTok` is the model's `_last_doc_str_token` -/
theorem lastTok_eq (d : Str) : lastTok d = lastDocStrToken d.toArray := (lastDocStrToken_eq d).symm

/-- **Index safety of `_get_token_last_idx` (every string):** it raises exactly when the index computed by
    `_last_doc_str_token` is not inside the string.  (`_get_token_start_idx` is a total function of the model: it never raises.) -/
theorem last_raises_iff (d : Str) :
    (∃ e, tokenLastIdx d.toArray = .error e) ↔ ∃ lf : Int, lastDocStrToken d.toArray = some lf ∧ (d.length : Int) ≤ lf :=
  tokenLastIdx_raises_iff d

/-- `last_found == len(doc_str)`: `TypeError` (`None + 1` after an empty `for`) -/
theorem last_typeError (d : Str) (h1 : lastDocStrToken d.toArray = some (d.length : Int)) :
    tokenLastIdx d.toArray = .error "TypeError" := tokenLastIdx_typeError d h1

/-- `last_found > len(doc_str)`: `IndexError` (`doc_str[last_found - 1]`) -/
theorem last_indexError (d : Str) (lf : Int) (h1 : lastDocStrToken d.toArray = some lf) (h : (d.length : Int) < lf) :
    tokenLastIdx d.toArray = .error "IndexError" := tokenLastIdx_indexError d lf h1 h

/-- `_get_token_last_idx` returns whenever that index is inside the string -/
theorem last_total (d : Str) (lf : Nat) (h1 : lastDocStrToken d.toArray = some (lf : Int)) (hlf : lf < d.length) :
    ∃ l, tokenLastIdx d.toArray = .ok l := tokenLastIdx_total d lf h1 hlf

/-- both error cases occur (numpydoc arithmetic `i − len(stack) + len(penultimate_stack)`: a word of dashes after the word
    `Returns`): `last_found = 15 > |d| = 10` is an `IndexError`, `last_found = 15 = |d|` a `TypeError` -/
theorem raises_witnesses :
    tokenLastIdx (cs!"Returns\n-\n").toArray = .error "IndexError"
    ∧ tokenLastIdx (cs!"Returns - xxxxx").toArray = .error "TypeError" :=
  ⟨last_indexError _ 15 (by rw [← lastTok_eq]; decide +kernel) (by decide),
   last_typeError _ (by rw [← lastTok_eq]; decide +kernel)⟩

/-- **a docstring without the character `-` never makes `_get_token_last_idx` raise** (the only way to an index outside the
    string is the numpydoc arithmetic, which needs a word made of dashes) -/
theorem last_never_raises_without_dash (d : Str) (h : '-' ∉ d) : ∃ l, tokenLastIdx d.toArray = .ok l := by
  cases hr : tokenLastIdx d.toArray with
  | ok l => exact ⟨l, rfl⟩
  | error e =>
    obtain ⟨lf, h1, h2⟩ := (last_raises_iff d).mp ⟨e, hr⟩
    have := lastDocStrToken_lt_of_no_dash d h lf h1
    omega

/-! ## ordering -/

/-- **Ordering (every string):** if `Ordered d` then the walkers' indices are ordered, or one of them is "not found" -/
theorem idx_ordered_all (d : Str) (s l : Int) (ho : Ordered d = true) (h : idxPair d = .ok (s, l)) :
    s = -1 ∨ l = -1 ∨ s ≤ l := by
  obtain ⟨hs, hl⟩ := idxPair_inv d s l h
  rcases tokenLastIdx_cases d l hl with ⟨_, h1⟩ | ⟨lf, L, lfs, hlf, _, h2, hL, _, hc⟩
  · exact Or.inr (Or.inl h1)
  · unfold Ordered at ho
    rw [lastTok_eq, hlf] at ho
    simp only [Bool.or_eq_true, beq_iff_eq, Bool.and_eq_true] at ho
    rw [tokenStartIdx_eq] at hs
    rw [← hs] at ho
    rcases ho with h1 | ⟨hA, hB⟩
    · exact Or.inl h1
    · -- clause B settles the `Raises:` exit
      have hexitR : l = (L : Int) - 1 → lstrip (lineAt d L) = raisesLit → s = -1 ∨ l = -1 ∨ s ≤ l := by
        intro h1 hr
        simp only [raisesClause, lastTokLine_of d lf lfs L h2 hL, raisesHeading, hr, beq_self_eq_true, Bool.not_true,
          Bool.false_or, Bool.or_eq_true, beq_iff_eq, decide_eq_true_eq] at hB
        rw [← hs] at hB
        rcases hB with hB | hB
        · right; left; omega
        · right; right; omega
      -- an index beyond every newline is beyond `start`
      have hbeyond : ∀ st : Nat, (st : Int) ≤ l → (∀ q, d[q]? = some '\n' → q < st) → s ≤ l := by
        intro st h1 hP
        rcases tokenStartIdx_range d with h3 | ⟨r, q, h3, h4, _, h6, _⟩
        · rw [tokenStartIdx_eq, ← hs] at h3; omega
        · rw [tokenStartIdx_eq, ← hs] at h3
          have := hP q h6
          omega
      rcases hA with hA | hA
      · simp only [nearClause, decide_eq_true_eq, Int.toNat_natCast] at hA
        rw [← hs] at hA
        rcases hc with ⟨st, h1, _, hP, _⟩ | ⟨h1, _⟩ | ⟨h1, hr⟩
        · right; right
          rcases hP with hP | hP
          · omega
          · exact hbeyond st h1 hP
        · right; right; omega
        · exact hexitR h1 hr
      · simp only [absorbClause, Bool.and_eq_true, Bool.not_eq_true', bne_iff_ne, ne_eq, Int.toNat_natCast,
          lastTokLfs_of d lf lfs h2, lastTokLine_of d lf lfs L h2 hL] at hA
        obtain ⟨⟨hA1, hA2⟩, hA3⟩ := hA
        rcases hc with ⟨st, h1, _, _, hP⟩ | ⟨_, _, h3, h4⟩ | ⟨h1, hr⟩
        · right; right
          exact hbeyond st h1 (hP ⟨hA1, hA2⟩)
        · rw [dashLine_of d L h3 h4] at hA3; cases hA3
        · exact hexitR h1 hr

/-- **The split is a partition (every string satisfying `Ordered`)** — `C15.C15_split_full` with no shape hypothesis: the
    three slices `original[:start]`, `original[start:last]`, `original[last:]` concatenate to the original -/
theorem C15_split_ordered (d : Str) (s l : Int) (ho : Ordered d = true) (h : idxPair d = .ok (s, l)) : Partitions d s l := by
  have hr := (idx_range d s l h).2.1
  rcases idx_ordered_all d s l ho h with h1 | h1 | h1
  · exact slice_partition d s l hr (Or.inl (by omega))
  · exact slice_partition d s l hr (Or.inr (Or.inl h1))
  · exact slice_partition d s l hr (Or.inr (Or.inr h1))

/-- contrapositive, as a classification: **every** string on which the walkers return `start > last ≠ −1` has a last token
    word and violates clause A (the section starts more than one line below the last token word) or clause B (the last
    token word is the heading `Raises:` on or before the section's first line) -/
theorem unordered_classified (d : Str) (s l : Int) (h : idxPair d = .ok (s, l)) (hlt : l < s) (hl : l ≠ -1) :
    ∃ lf, lastTok d = some lf ∧ ((nearClause d lf = false ∧ absorbClause d lf = false) ∨ raisesClause d lf = false) := by
  cases ho : Ordered d with
  | true =>
    have := (idx_range d s l h).2.1
    rcases idx_ordered_all d s l ho h with h1 | h1 | h1 <;> omega
  | false =>
    unfold Ordered at ho
    cases hlf : lastTok d with
    | none => rw [hlf] at ho; cases ho
    | some lf =>
      rw [hlf] at ho
      refine ⟨lf, rfl, ?_⟩
      simp only [Bool.or_eq_false_iff, Bool.and_eq_false_iff] at ho
      exact ho.2

/-- with `start > last ≥ 0` the slices do not concatenate (every string; the hypothesis `start ≤ |d|` of
    `C15Struct.not_partitions_of_gt` is discharged by `idx_range`) -/
theorem unordered_not_partition (d : Str) (s l : Int) (h : idxPair d = .ok (s, l)) (hlt : l < s) (hl : l ≠ -1) :
    ¬ Partitions d s l := by
  obtain ⟨h1, h2, _⟩ := idx_range d s l h
  exact C15Struct.not_partitions_of_gt d s l (by omega) hlt (by omega)

/-! ## non-vacuity: `Ordered` holds on the realistic docstrings of `Properties/C15Struct.lean` (all three styles) -/

example : Ordered C15Struct.exDoc = true := by decide +kernel
example : Ordered C15Struct.exDocN = true := by decide +kernel
example : Ordered (unlines C15Struct.exHs ++ unlines C15Struct.exSs3 ++ cs!"Returns:" ++ '\n' :: C15Struct.exPost3) = true := by
  decide +kernel
/-- instance of `C15_split_ordered` (not an evaluation of the slices) -/
example : Partitions C15Struct.exDoc 77 168 :=
  C15_split_ordered _ _ _ (by decide +kernel) (idxPair_of_F _ _ (by decide +kernel))
/-- a Google docstring whose `Raises:` heading follows an `Args:` section satisfies clause B (the section starts earlier) -/
example : Ordered cs!"Summary.\n\nArgs:\n  a: b\nRaises:\n  ValueError: bad\n" = true
    ∧ idxPair cs!"Summary.\n\nArgs:\n  a: b\nRaises:\n  ValueError: bad\n" = .ok (10, 22) :=
  ⟨by decide +kernel, idxPair_of_F _ _ (by decide +kernel)⟩
/-- a header sentence containing the word `Returns`, directly followed by a lone `:return:` line: clause A₁ holds with
    equality (`start = 16 =` end of the `Returns` line `+ 1`) although the last token word lies before the section -/
example : Ordered cs!"This Returns x.\n:return: y\n" = true ∧ idxPair cs!"This Returns x.\n:return: y\n" = .ok (16, 26)
    ∧ lastTok cs!"This Returns x.\n:return: y\n" = some 5 :=
  ⟨by decide +kernel, idxPair_of_F _ _ (by decide +kernel), by decide +kernel⟩
/-- the same with a blank line in between: A₁ fails (`start = 17 > 16`), A₂ holds (the line after the `Returns` line is
    blank) — the *absorbed* exit answers the end of the string -/
example : nearClause cs!"This Returns x.\n\n:return: y\n" 5 = false ∧ absorbClause cs!"This Returns x.\n\n:return: y\n" 5 = true
    ∧ Ordered cs!"This Returns x.\n\n:return: y\n" = true ∧ idxPair cs!"This Returns x.\n\n:return: y\n" = .ok (17, 28) :=
  ⟨by decide +kernel, by decide +kernel, by decide +kernel, idxPair_of_F _ _ (by decide +kernel)⟩

/-! ## each clause of `Ordered` is needed -/

/-- **clause A is needed** (the exact-`Parameters`-line family): the header has a line that is exactly `Parameters` (a word
    of `TOKENS_SET`) followed by prose, and the section is a lone `:return:` (no token *word*: `:return:` carries a
    trailing colon).  The last token word is in the header (index 10), `last` is the start of the line after it (21), and
    the section starts 30 characters later (51): A₁ fails; the line after `Parameters` is prose, not blank: A₂ fails.
    Clause B holds; the slices do not concatenate. -/
theorem clauseA_needed :
    let d := cs!"Summary.\n\nParameters\nare described in the manual.\n\n:return: r\n"
    lastTok d = some 10 ∧ nearClause d 10 = false ∧ absorbClause d 10 = false ∧ raisesClause d 10 = true ∧ Ordered d = false
      ∧ idxPair d = .ok (51, 21) ∧ ¬ Partitions d 51 21 := by
  refine ⟨by decide +kernel, by decide +kernel, by decide +kernel, by decide +kernel, by decide +kernel, ?_, ?_⟩
  · exact idxPair_of_F _ _ (by decide +kernel)
  · exact C15Struct.not_partitions_of_gt _ _ _ (by decide) (by decide) (by decide +kernel)

/-- the same with a header line `Returns` and a `:return:` / `:rtype:` pair -/
theorem clauseA_needed_returns :
    let d := cs!"Summary.\n\nReturns\nthe value.\n\n:return: r\n:rtype: int\n"
    nearClause d 10 = false ∧ absorbClause d 10 = false ∧ raisesClause d 10 = true ∧ idxPair d = .ok (30, 18)
      ∧ ¬ Partitions d 30 18 := by
  refine ⟨by decide +kernel, by decide +kernel, by decide +kernel, ?_, ?_⟩
  · exact idxPair_of_F _ _ (by decide +kernel)
  · exact C15Struct.not_partitions_of_gt _ _ _ (by decide) (by decide) (by decide +kernel)

/-- **clause B is needed** (the `Raises:` short-circuit): a Google docstring whose only section is `Raises:`.  Clauses A₁
    (`start = 10 ≤ 18`) and A₂ (an indented line follows) both hold, the last token word is the heading on the section's
    first line, `last = start − 1`. -/
theorem clauseB_needed :
    let d := cs!"Summary.\n\nRaises:\n  ValueError: bad\n"
    lastTok d = some 10 ∧ nearClause d 10 = true ∧ absorbClause d 10 = true ∧ raisesClause d 10 = false ∧ Ordered d = false
      ∧ idxPair d = .ok (10, 9) ∧ ¬ Partitions d 10 9 := by
  refine ⟨by decide +kernel, by decide +kernel, by decide +kernel, by decide +kernel, by decide +kernel, ?_, ?_⟩
  · exact idxPair_of_F _ _ (by decide +kernel)
  · exact C15Struct.not_partitions_of_gt _ _ _ (by decide) (by decide) (by decide +kernel)

/-- `Ordered` is sufficient, not necessary: (1) clause B fails, but the `Raises:` heading is directly followed by a line that
    starts with a token — `_get_token_last_idx` takes the next-line exit before it reaches the short-circuit; (2) clause A
    fails (the last token index, computed by the numpydoc arithmetic, is on a line of dashes far above the section), but
    the line loop of the *dashes* exit runs on to the last line that contains a colon -/
theorem ordered_not_necessary :
    Ordered cs!"Summary.\n\nRaises:\n:return: x\n" = false ∧ idxPair cs!"Summary.\n\nRaises:\n:return: x\n" = .ok (10, 28)
    ∧ Ordered cs!"Parameters\n  -------\n-------\n\n:return: r\n" = false
    ∧ idxPair cs!"Parameters\n  -------\n-------\n\n:return: r\n" = .ok (30, 42) :=
  ⟨by decide +kernel, idxPair_of_F _ _ (by decide +kernel), by decide +kernel, idxPair_of_F _ _ (by decide +kernel)⟩

end C15All
