import CddVerif.Gen.Imports
/-!
# C18 — every public module imports cleanly on its own, in any order

The event table `Gen.Imports` is REGENERATED from /repo on every run by `harness/translators/imports.py`;
the theorems below are re-checked against it by kernel evaluation (`decide +kernel`, no extra axioms).
Pair theorems (all ordered pairs, both orders end in the same state) are in `Properties/C18Pairs/P*.lean`.
-/
namespace C18
open Imports

def cfg : Cfg := { tbl := Gen.Imports.tbl, short := Gen.Imports.short, stride := Gen.Imports.stride }
/-- enough fuel for any call chain: every event runs at most once per interpreter -/
def fuel : Nat := Gen.Imports.fuel

/-- **C18 (singles):** in a fresh interpreter, importing any single public module succeeds. -/
theorem single_ok : allSingles cfg fuel Gen.Imports.chains = true := by decide +kernel

/-- restated per module -/
theorem single_ok_each : ∀ ch ∈ Gen.Imports.chains, okB (fresh cfg fuel [ch]) = true := by
  have h := single_ok
  unfold allSingles at h
  exact List.all_eq_true.mp h

/-- the table is not vacuous: there are public modules and each chain is non-empty -/
theorem table_nonempty : Gen.Imports.chains.length = Gen.Imports.nPublic ∧ 0 < Gen.Imports.nPublic ∧
    Gen.Imports.chains.all (fun c => !c.isEmpty) = true := by decide +kernel

end C18
