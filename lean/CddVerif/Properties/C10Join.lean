import CddVerif.Proofs.JoinNonNone
/-!
# C10 (join) — `_join_non_none` and its users do not depend on the frozenset's iteration order … as MAPS

`_join_non_none(primacy, other)` iterates `frozenset(primacy.keys() ∪ other.keys())`; that order is the oracle `σ`
(`Oracle σ p o`: every key of either dict, once).  What is proved of the model `JoinNonNone.join σ p o`:

1. the result is the same MAP for every oracle (`join_map_indep`, `join_keys_perm`, `join_sameMap`);
2. the exact value of every key (`join_value_spec` and its three readable clauses, `join_get`, the two early returns);
3. the exact key ORDER (`join_keys_spec`): primacy's keys in primacy's order, then the *fresh* keys (absent from primacy,
   non-`None` in other) **in oracle order** — so the order leaks the hash seed exactly when there are two distinct
   fresh keys (`join_order_differs_iff`, witness `join_order_witness`), and otherwise the result is one fixed dict
   (`join_deterministic_of_le_one_fresh`);
4. users: anything that reads the joined dict by key only is oracle-independent (`reader_indep`); the `returns` part
   of `ir_merge` (the only caller) inherits exactly the properties above (`irMergeReturns_sameMap`,
   `irMergeReturns_order_witness`); `merge_present_params` — which does NOT call `_join_non_none` in the code —
   is fully oracle-independent, order included, when the joined dict is its read-only `other_param`
   (`mergePresent_other_joined`) and only map-independent when the joined dict is the mutated `target_param`
   (`mergePresent_target_joined`, `mergePresent_target_order_witness`).
-/
namespace C10Join
open JoinNonNone

section generic
variable {κ : Type} [DecidableEq κ] {β : Type}

/-! ## (2) specification of the values -/

/-- **early return 1:** an empty `primacy` returns `other` itself — all of it, `None`-valued keys included -/
theorem join_empty_primacy (σ : List κ) (o : D κ β) : join σ [] o = o := join_nil_left σ o

/-- **early return 2:** an empty `other` returns `primacy` unchanged -/
theorem join_empty_other (σ : List κ) (p : D κ β) : join σ p [] = p := join_nil_right σ p

/-- **value specification (both dicts non-empty):** a key is overwritten / added with `other`'s value exactly when
    `primacy.get(k) is None and other.get(k) is not None`; every other key is as in `primacy` (bound or absent). -/
theorem join_value_spec (σ : List κ) (p o : D κ β) (hσ : Oracle σ p o) (hp : p ≠ []) (ho : o ≠ []) (k : κ) :
    lookup? (join σ p o) k = if cond p o k = true then some (get o k) else lookup? p k :=
  lookup?_join_of_cover σ p o hσ.nodup hσ.cover hp ho k

/-- clause a: a non-`None` value of `primacy` wins -/
theorem join_primacy_wins (σ : List κ) (p o : D κ β) (hσ : Oracle σ p o) (hp : p ≠ []) (ho : o ≠ []) (k : κ) (v : β)
    (h : get p k = some v) : lookup? (join σ p o) k = some (some v) := by
  rw [join_value_spec σ p o hσ hp ho]
  have hc : cond p o k = false := by simp [JoinNonNone.cond, h]
  have hl : lookup? p k = some (some v) := by
    unfold JoinNonNone.get at h
    cases hh : lookup? p k with
    | none => simp [hh] at h
    | some w => simp [hh] at h; rw [h]
  simp [hc, hl]

/-- clause b: where `primacy` has `None` or nothing, a non-`None` value of `other` is taken -/
theorem join_other_fills (σ : List κ) (p o : D κ β) (hσ : Oracle σ p o) (hp : p ≠ []) (ho : o ≠ []) (k : κ) (v : β)
    (h1 : get p k = none) (h2 : get o k = some v) : lookup? (join σ p o) k = some (some v) := by
  rw [join_value_spec σ p o hσ hp ho]
  have hc : cond p o k = true := by simp [JoinNonNone.cond, h1, h2]
  simp [hc, h2]

/-- clause c: where neither has a non-`None` value the key stays as it is in `primacy` — bound to `None`, or absent
    (a key that only `other` has, bound to `None`, is NOT copied; contrast `join_empty_primacy`) -/
theorem join_none_stays (σ : List κ) (p o : D κ β) (hσ : Oracle σ p o) (hp : p ≠ []) (ho : o ≠ []) (k : κ)
    (h2 : get o k = none) : lookup? (join σ p o) k = lookup? p k := by
  rw [join_value_spec σ p o hσ hp ho]
  have hc : cond p o k = false := by simp [JoinNonNone.cond, h2]
  simp [hc]

/-- the same specification through `dict.get`, uniform over the early returns: `primacy.get(k)` if not `None`, else `other.get(k)` -/
theorem join_get (σ : List κ) (p o : D κ β) (hσ : Oracle σ p o) (k : κ) :
    get (join σ p o) k = (get p k).or (get o k) :=
  get_join_of_cover σ p o hσ.nodup hσ.cover k

/-! ## (3) specification of the key order -/

/-- **key order:** primacy's keys in primacy's order, then the fresh keys in ORACLE order -/
theorem join_keys_spec (σ : List κ) (p o : D κ β) (hσ : Oracle σ p o) (hp : p ≠ []) (ho : o ≠ []) :
    keys (join σ p o) = keys p ++ σ.filter (fresh p o) :=
  keys_join_of_nodup σ p o hσ.nodup hp ho

/-- the result of joining two well-formed dicts is a well-formed dict -/
theorem join_wf (σ : List κ) (p o : D κ β) (hσ : Oracle σ p o) (hp : WF p) (ho : WF o) : WF (join σ p o) :=
  wf_join σ p o hσ.nodup hp ho

/-! ## (1) the result as a map does not depend on the oracle -/

/-- **every key has the same value (and the same presence) under any two oracles** -/
theorem join_map_indep (σ₁ σ₂ : List κ) (p o : D κ β) (h₁ : Oracle σ₁ p o) (h₂ : Oracle σ₂ p o) (k : κ) :
    lookup? (join σ₁ p o) k = lookup? (join σ₂ p o) k := by
  by_cases hp : p = []
  · subst hp; rw [join_nil_left, join_nil_left]
  · by_cases ho : o = []
    · subst ho; rw [join_nil_right, join_nil_right]
    · rw [join_value_spec σ₁ p o h₁ hp ho, join_value_spec σ₂ p o h₂ hp ho]

/-- **the key sets are equal** -/
theorem join_keys_perm (σ₁ σ₂ : List κ) (p o : D κ β) (h₁ : Oracle σ₁ p o) (h₂ : Oracle σ₂ p o) :
    (keys (join σ₁ p o)).Perm (keys (join σ₂ p o)) := by
  by_cases hp : p = []
  · subst hp; rw [join_nil_left, join_nil_left]
  · by_cases ho : o = []
    · subst ho; rw [join_nil_right, join_nil_right]
    · rw [join_keys_spec σ₁ p o h₁ hp ho, join_keys_spec σ₂ p o h₂ hp ho]
      exact List.Perm.append_left _ ((h₁.perm h₂).filter _)

/-- (1) in one statement: the two results are equal as Python dicts (`==`) -/
theorem join_sameMap (σ₁ σ₂ : List κ) (p o : D κ β) (h₁ : Oracle σ₁ p o) (h₂ : Oracle σ₂ p o) :
    SameMap (join σ₁ p o) (join σ₂ p o) :=
  ⟨join_map_indep σ₁ σ₂ p o h₁ h₂, join_keys_perm σ₁ σ₂ p o h₁ h₂⟩

/-! ## (3) when the order leaks -/

/-- for a well-formed `primacy`, two results with the same key order are the same dict -/
theorem join_eq_of_keys_eq (σ₁ σ₂ : List κ) (p o : D κ β) (h₁ : Oracle σ₁ p o) (h₂ : Oracle σ₂ p o)
    (hp : WF p) (ho : WF o) (hk : keys (join σ₁ p o) = keys (join σ₂ p o)) : join σ₁ p o = join σ₂ p o :=
  eq_of_keys_lookup _ _ hk (join_wf σ₁ p o h₁ hp ho) (join_map_indep σ₁ σ₂ p o h₁ h₂)

/-- **the leak, precisely:** some two oracle orders give different key orders iff both dicts are non-empty and
    there are two distinct fresh keys (absent from `primacy`, non-`None` in `other`).  The differing part is only the
    tail after primacy's own keys (`join_keys_spec`). -/
theorem join_order_differs_iff (p o : D κ β) :
    (∃ σ₁ σ₂, Oracle σ₁ p o ∧ Oracle σ₂ p o ∧ keys (join σ₁ p o) ≠ keys (join σ₂ p o)) ↔
      p ≠ [] ∧ ∃ a b, a ≠ b ∧ fresh p o a = true ∧ fresh p o b = true := by
  constructor
  · rintro ⟨σ₁, σ₂, h₁, h₂, hne⟩
    have hp : p ≠ [] := by
      rintro rfl; rw [join_nil_left, join_nil_left] at hne; exact hne rfl
    have ho : o ≠ [] := by
      rintro rfl; rw [join_nil_right, join_nil_right] at hne; exact hne rfl
    refine ⟨hp, ?_⟩
    rw [join_keys_spec σ₁ p o h₁ hp ho, join_keys_spec σ₂ p o h₂ hp ho] at hne
    apply Classical.byContradiction
    intro hno
    apply hne
    congr 1
    apply eq_of_perm_of_subsingleton ((h₁.perm h₂).filter _) (h₁.nodup.filter _)
    intro a ha b hb
    apply Classical.byContradiction
    intro hab
    exact hno ⟨a, b, hab, (List.mem_filter.mp ha).2, (List.mem_filter.mp hb).2⟩
  · rintro ⟨hp, a, b, hab, ha, hb⟩
    have hmem : ∀ x, fresh p o x = true → x ∈ (keys p ++ keys o).dedup := by
      intro x hx
      simp only [fresh, Bool.and_eq_true] at hx
      have := (has_iff_mem_keys o x).mp (has_of_get_isSome o x hx.2)
      simp [List.mem_dedup, this]
    have ho : o ≠ [] := by
      rintro rfl
      simp [fresh, JoinNonNone.get, lookup?] at ha
    have hL := oracle_dedup p o
    have h₁ := oracle_front _ p o hL a b hab (hmem a ha) (hmem b hb)
    have h₂ := oracle_front _ p o hL b a (Ne.symm hab) (hmem b hb) (hmem a ha)
    refine ⟨_, _, h₁, h₂, ?_⟩
    rw [join_keys_spec _ p o h₁ hp ho, join_keys_spec _ p o h₂ hp ho]
    intro h
    have h' := List.append_cancel_left h
    simp only [List.filter_cons, ha, hb, if_true, List.cons.injEq] at h'
    exact hab h'.1

/-- **no leak otherwise:** with at most one fresh key (in particular when `other` brings no new key) the result is one
    fixed dict, key order included -/
theorem join_deterministic_of_le_one_fresh (σ₁ σ₂ : List κ) (p o : D κ β) (h₁ : Oracle σ₁ p o) (h₂ : Oracle σ₂ p o)
    (hp : WF p) (ho : WF o) (h : ∀ a b, fresh p o a = true → fresh p o b = true → a = b) :
    join σ₁ p o = join σ₂ p o := by
  apply join_eq_of_keys_eq σ₁ σ₂ p o h₁ h₂ hp ho
  apply Classical.byContradiction
  intro hne
  obtain ⟨_, a, b, hab, ha, hb⟩ := (join_order_differs_iff p o).mp ⟨σ₁, σ₂, h₁, h₂, hne⟩
  exact hab (h a b ha hb)

/-! ## (4) users of the joined dict -/

/-- anything computed from the joined dict through `d[k]` / `d.get(k)` / `k in d` alone is oracle-independent -/
theorem reader_indep {γ : Type} (f : D κ β → γ) (hf : ∀ d d', (∀ k, lookup? d k = lookup? d' k) → f d = f d')
    (σ₁ σ₂ : List κ) (p o : D κ β) (h₁ : Oracle σ₁ p o) (h₂ : Oracle σ₂ p o) :
    f (join σ₁ p o) = f (join σ₂ p o) :=
  hf _ _ (join_map_indep σ₁ σ₂ p o h₁ h₂)

/-- the `returns["return_type"]` that `ir_merge` leaves in `target` is the same map under any two oracles -/
theorem irMergeReturns_sameMap (σ₁ σ₂ : List κ) (p o : D κ β) (h₁ : Oracle σ₁ p o) (h₂ : Oracle σ₂ p o) :
    ∃ d₁ d₂, irMergeReturns σ₁ (some p) (some o) = some d₁ ∧ irMergeReturns σ₂ (some p) (some o) = some d₂ ∧
      SameMap d₁ d₂ :=
  ⟨_, _, rfl, rfl, join_sameMap σ₁ σ₂ p o h₁ h₂⟩

/-- in the other branches of `ir_merge` no set is iterated at all -/
theorem irMergeReturns_no_oracle (σ₁ σ₂ : List κ) (t o : Option (D κ β)) (h : t = none ∨ o = none) :
    irMergeReturns σ₁ t o = irMergeReturns σ₂ t o := by
  rcases h with rfl | rfl
  · rfl
  · cases t <;> rfl

end generic

/-! ## concrete witnesses and non-vacuity -/

/-- the dicts of the witness: `primacy = {"doc": "d"}`, `other = {"typ": "int", "default": "i:5", "doc": None}` -/
def wp : D String String := [("doc", some "d")]
def wo : D String String := [("typ", some "int"), ("default", some "i:5"), ("doc", none)]

theorem wp_wf : WF wp := by unfold WF; decide
theorem wo_wf : WF wo := by unfold WF; decide

theorem oracle_w1 : Oracle ["doc", "typ", "default"] wp wo :=
  (oracle_iff_perm _ wp wo wp_wf wo_wf).mpr (by decide)
theorem oracle_w2 : Oracle ["default", "doc", "typ"] wp wo :=
  (oracle_iff_perm _ wp wo wp_wf wo_wf).mpr (by decide)

/-- **(3) proved witness of the leak:** the same two dicts, two admissible frozenset orders, two key orders -/
theorem join_order_witness :
    Oracle ["doc", "typ", "default"] wp wo ∧ Oracle ["default", "doc", "typ"] wp wo ∧
    join ["doc", "typ", "default"] wp wo = [("doc", some "d"), ("typ", some "int"), ("default", some "i:5")] ∧
    join ["default", "doc", "typ"] wp wo = [("doc", some "d"), ("default", some "i:5"), ("typ", some "int")] :=
  ⟨oracle_w1, oracle_w2, by decide, by decide⟩

/-- the same leak seen through `ir_merge`: `target["returns"]["return_type"]` differs in key order -/
theorem irMergeReturns_order_witness :
    irMergeReturns ["doc", "typ", "default"] (some wp) (some wo) ≠
      irMergeReturns ["default", "doc", "typ"] (some wp) (some wo) := by decide

/-- non-vacuity of `join_order_differs_iff` (right-hand side) and of the clauses of the value specification -/
example : wp ≠ [] ∧ ∃ a b, a ≠ b ∧ fresh wp wo a = true ∧ fresh wp wo b = true :=
  ⟨by decide, "typ", "default", by decide, by decide, by decide⟩
example : get wp "doc" = some "d" ∧ lookup? (join ["default", "doc", "typ"] wp wo) "doc" = some (some "d") := by decide
example : get wp "typ" = none ∧ get wo "typ" = some "int" ∧
    lookup? (join ["default", "doc", "typ"] wp wo) "typ" = some (some "int") := by decide
/-- clause c, both sub-cases: `None` stays `None`; a `None`-valued key that only `other` has is not copied … -/
example : lookup? (join ["a", "b", "c"] [("a", none), ("c", some "1")] [("a", none), ("b", none)]) "a" = some none ∧
    lookup? (join ["a", "b", "c"] [("a", none), ("c", some "1")] [("a", none), ("b", none)]) "b" = none := by decide
/-- … but IS returned when `primacy` is empty (early return hands back `other` itself) -/
example : lookup? (join ["a", "b"] ([] : D String String) [("a", none), ("b", none)]) "b" = some none := by decide
/-- non-vacuity of `join_deterministic_of_le_one_fresh`: one fresh key -/
example : WF wp ∧ WF [("typ", some "int"), ("doc", some "x")] ∧
    ∀ a b, fresh wp [("typ", some "int"), ("doc", some "x")] a = true →
      fresh wp [("typ", some "int"), ("doc", some "x")] b = true → a = b := by
  refine ⟨wp_wf, by unfold WF; decide, ?_⟩
  intro a b ha hb
  have key : ∀ x, fresh wp [("typ", some "int"), ("doc", some "x")] x = true → x = "typ" := by
    intro x hx
    simp only [fresh, Bool.and_eq_true] at hx
    have hm := (has_iff_mem_keys _ x).mp (has_of_get_isSome _ x hx.2)
    simp only [keys, List.map_cons, List.map_nil, List.mem_cons, List.not_mem_nil, or_false] at hm
    rcases hm with rfl | rfl
    · rfl
    · exact absurd hx.1 (by decide)
  rw [key a ha, key b hb]

/-! ## `merge_present_params` fed with a joined dict -/

/-- the dict-level model of `merge_present_params` is the `ParamVal`-level model of `Model/Merge.lean`
    (the one `C10.merge_deterministic` is about) seen through `toParam` -/
theorem mergePresentD_toParam (o t : D String String) :
    toParam (mergePresentD o t) = Merge.mergePresent (toParam o) (toParam t) := by
  rw [mergePresent_eq_steps, ← toParam_docStep, ← toParam_typStep, ← toParam_defaultStep]; rfl

/-- **(4a) joined dict as the read-only `other_param`: fully oracle-independent, key order included** -/
theorem mergePresent_other_joined (σ₁ σ₂ : List String) (p o t : D String String)
    (h₁ : Oracle σ₁ p o) (h₂ : Oracle σ₂ p o) :
    mergePresentD (join σ₁ p o) t = mergePresentD (join σ₂ p o) t :=
  mergePresentD_congr_other _ _ t (fun k => (join_sameMap σ₁ σ₂ p o h₁ h₂).get_eq k)

/-- **(4b) joined dict as the mutated `target_param`: the same map, the key order of the join is inherited** -/
theorem mergePresent_target_joined (σ₁ σ₂ : List String) (p o other : D String String)
    (h₁ : Oracle σ₁ p o) (h₂ : Oracle σ₂ p o) :
    SameMap (mergePresentD other (join σ₁ p o)) (mergePresentD other (join σ₂ p o)) :=
  mergePresentD_sameMap other (join_sameMap σ₁ σ₂ p o h₁ h₂)

/-- (4b) cannot be improved: the inherited key order does differ -/
theorem mergePresent_target_order_witness :
    mergePresentD [("doc", some "other doc")] (join ["doc", "typ", "default"] wp wo) ≠
      mergePresentD [("doc", some "other doc")] (join ["default", "doc", "typ"] wp wo) := by decide

/-- non-vacuity of (4a): a case where all three assignments of `merge_present_params` fire -/
example : mergePresentD (join ["default", "doc", "typ"] wp wo) [("typ", none), ("x", some "1")] =
    [("typ", some "int"), ("x", some "1"), ("doc", some "d"), ("default", some "i:5")] := by decide

end C10Join
