import CddVerif.Proofs.Doc
/-!
# C01 — docstring ↔ interface round-trip

What is proved here is the mechanism the statement rests on — the bijection between a typed default value and
its "Defaults to …" prose — for **every** description in an explicit decidable domain and **every** integer /
boolean, on the ports of `set_default_doc`, `extract_default` and `_parse_out_default_and_doc`, plus the
quoting laws.  The whole-docstring round trip `view (parse (emit ir)) = view ir` (`C01_full`) is kept as a
definition; it is *observed* on the real code and on the model by the harness, not proved (see DESIGN.md §4 C01).
-/
namespace C01
open Py Doc

/-- the announce phrase looked for first by `extract_default` -/
def ann : Str := ['d', 'e', 'f', 'a', 'u', 'l', 't', 's', ' ', 't', 'o', ' ']

/-- **Domain of descriptions** (decidable): the text `b` that precedes " Defaults to …" contains no `(` and no
    earlier (case-insensitive) occurrence of the announce phrase — also not one straddling into the emitted phrase. -/
def GoodBase (b : Str) : Prop := '(' ∉ lower b ∧ NoEarly ann (lower b ++ [' '])

/-- the full statement of C01 for ReST over the model (observed, not proved) -/
def C01_full : Prop :=
  ∀ (ir : IR) (et ww edd : Bool) (s : Str), emit ir .rest et ww edd = .ok s →
    ∃ ir', parseRest s edd = .ok ir' ∧ ir'.params.map (·.1) = ir.params.map (·.1)

/-! ### helper facts about the concrete strings -/

theorem lower_defaultsTo : lower defaultsTo = ' ' :: ann := by decide
theorem lower_ann : lower ann = ann := by decide
theorem announce_head : announceVariants.head? = some ann := by decide

theorem lowerC_digit (c : Char) (h : c.isDigit = true) : lowerC c = c := by
  unfold lowerC
  have : isAsciiUpper c = false := by
    unfold isAsciiUpper
    unfold Char.isDigit at h
    simp only [Bool.and_eq_true, decide_eq_true_eq, ge_iff_le] at h
    have h2 : c.val ≤ 57 := h.2
    cases hb : (decide ('A' ≤ c) && decide (c ≤ 'Z')) with
    | false => rfl
    | true =>
      simp only [Bool.and_eq_true, decide_eq_true_eq, Char.le_def] at hb
      have : (65 : UInt32) ≤ c.val := hb.1
      exact absurd (UInt32.le_trans this h2) (by decide)
  simp [this]

theorem lower_digits (s : Str) (h : ∀ c ∈ s, c.isDigit = true) : lower s = s := by
  unfold lower
  induction s with
  | nil => rfl
  | cons c cs ih =>
    simp only [List.map_cons]
    rw [lowerC_digit c (h c (by simp)), ih (fun d hd => h d (by simp [hd]))]

theorem paren_not_digit (s : Str) (h : ∀ c ∈ s, c.isDigit = true) : '(' ∉ s := by
  intro hm; have := h '(' hm; revert this; decide

theorem locateVariant_none (line : Str) (vs : List Str) (h : ∀ v ∈ vs, find (lower line) (lower v) = none) :
    locateVariant line vs = none := by
  induction vs with
  | nil => rfl
  | cons v vs ih =>
    unfold locateVariant
    split
    · exact ih (fun w hw => h w (by simp [hw]))
    · rw [h v (by simp)]; exact ih (fun w hw => h w (by simp [hw]))

/-- no parenthesised announce in a line without `(` -/
theorem hasParenAnnounce_false (line : Str) (h : '(' ∉ lower line) : hasParenAnnounce line = false := by
  unfold hasParenAnnounce
  have : locateVariant line (announceVariants.map (fun v => '(' :: v)) = none := by
    apply locateVariant_none
    intro v hv
    obtain ⟨w, _, rfl⟩ := List.mem_map.mp hv
    have hl : lower ('(' :: w) = '(' :: lower w := by
      unfold lower; simp only [List.map_cons]; congr 1
    rw [hl]; unfold find
    exact findFrom_none_of_head '(' (lower w) (lower line) 0 h
  rw [this]; rfl

theorem lower_append (a b : Str) : lower (a ++ b) = lower a ++ lower b := by unfold lower; simp

/-- the announce phrase is located exactly where the emitter put it -/
theorem locate_emitted (b val : Str) (hb : GoodBase b) :
    locateVariant (b ++ defaultsTo ++ val) announceVariants = some (b.length + 1, b.length + 1 + 12) := by
  have hvar : announceVariants = ann :: announceVariants.tail := by decide
  rw [hvar]
  unfold locateVariant
  have hlen : ¬ (ann.length > (b ++ defaultsTo ++ val).length) := by
    simp only [List.length_append]
    have : ann.length = 12 := by decide
    have : defaultsTo.length = 13 := by decide
    omega
  simp only [hlen, if_false]
  have hl : lower (b ++ defaultsTo ++ val) = (lower b ++ [' ']) ++ ann ++ lower val := by
    rw [lower_append, lower_append, lower_defaultsTo]; simp
  rw [hl, lower_ann, find_append ann (lower b ++ [' ']) (lower val) (by decide) hb.2]
  have : (lower b).length = b.length := by unfold lower; simp
  simp only [List.length_append, List.length_cons, List.length_nil, this]
  have : ann.length = 12 := by decide
  rw [this]

theorem drop_emitted (b val : Str) : (b ++ defaultsTo ++ val).drop (b.length + 1 + 12) = val := by
  have : defaultsTo.length = 13 := by decide
  rw [List.append_assoc, List.drop_append]
  have h1 : b.length + 1 + 12 - b.length = 13 := by omega
  rw [List.drop_of_length_le (by omega), h1, List.nil_append, List.drop_append]
  rw [List.drop_of_length_le (by omega)]; simp [this]

/-! ### the value cascade on decimal text -/

theorem parse_nat_text (n : Nat) : parseDefaultText (natToStr n) none = .ok (.int n) := by
  unfold parseDefaultText
  simp only [Bool.false_and, Bool.false_eq_true, if_false, toDigits_isdecimal n, if_true, parseNat_natToStr]

theorem natToStr_isDigit (n : Nat) : ∀ c ∈ natToStr n, c.isDigit = true := toDigits_isDigit n

theorem takeDefault_nat (n : Nat) : takeDefault 0 (natToStr n) = natToStr n :=
  takeDefault_digits 0 _ (natToStr_isDigit n)

theorem natToStr_ne_nil (n : Nat) : natToStr n ≠ [] := Nat.toDigits_ne_nil

/-- **Default ↔ prose, non-negative integers.** For every description base in the domain and every `n`:
    reading back the line `"<base> Defaults to <n>"` yields the integer `n` (as an int, not a float or a string)
    and — with `emit_default_doc=True` — the description unchanged. -/
theorem extract_nat_roundtrip (b : Str) (n : Nat) (hb : GoodBase b) :
    extractDefault (b ++ defaultsTo ++ natToStr n) none true = .ok (b ++ defaultsTo ++ natToStr n, some (.int n)) := by
  unfold extractDefault
  have hp : '(' ∉ lower (b ++ defaultsTo ++ natToStr n) := by
    rw [lower_append, lower_append, lower_digits _ (natToStr_isDigit n)]
    intro hm
    simp only [List.mem_append] at hm
    rcases hm with (h1 | h2) | h3
    · exact hb.1 h1
    · revert h2; rw [lower_defaultsTo]; decide
    · exact paren_not_digit _ (natToStr_isDigit n) h3
  rw [hasParenAnnounce_false _ hp]
  simp only [Bool.false_eq_true, if_false]
  rw [locate_emitted b (natToStr n) hb]
  simp only [drop_emitted, takeDefault_nat, stripChars_digits _ (natToStr_isDigit n) (natToStr_ne_nil n), parse_nat_text, if_true]

/-- **Default ↔ prose, negative integers** ("a negative number stays negative", "an int stays an int"). -/
theorem extract_neg_roundtrip (b : Str) (n : Nat) (hb : GoodBase b) :
    extractDefault (b ++ defaultsTo ++ ('-' :: natToStr (n + 1))) none true
      = .ok (b ++ defaultsTo ++ ('-' :: natToStr (n + 1)), some (.int (-((n + 1 : Nat) : Int)))) := by
  unfold extractDefault
  have hdig := natToStr_isDigit (n + 1)
  have hp : '(' ∉ lower (b ++ defaultsTo ++ ('-' :: natToStr (n + 1))) := by
    rw [lower_append, lower_append]
    have hl : lower ('-' :: natToStr (n + 1)) = '-' :: natToStr (n + 1) := by
      have := lower_digits _ hdig
      unfold lower at this ⊢
      simp only [List.map_cons, this]; congr 1
    rw [hl]
    intro hm
    simp only [List.mem_append, List.mem_cons] at hm
    rcases hm with (h1 | h2) | (h3 | h4)
    · exact hb.1 h1
    · revert h2; rw [lower_defaultsTo]; decide
    · revert h3; decide
    · exact paren_not_digit _ hdig h4
  rw [hasParenAnnounce_false _ hp]
  simp only [Bool.false_eq_true, if_false]
  rw [locate_emitted b _ hb]
  have htake : takeDefault 0 ('-' :: natToStr (n + 1)) = '-' :: natToStr (n + 1) := by
    simp only [takeDefault]
    have : (('-' : Char) == '.') = false := by decide
    simp only [this, Bool.false_and, Bool.false_eq_true, if_false]
    have hbr : (('-' : Char) == '{' || ('-' : Char) == '[' || ('-' : Char) == '(' || ('-' : Char) == ')' || ('-' : Char) == ']' || ('-' : Char) == '}') = false := by decide
    simp only [hbr, Bool.false_eq_true, if_false]
    rw [takeDefault_digits 0 _ hdig]
  have hstrip : stripChars ('-' :: natToStr (n + 1)) [' ', '\t', '`'] = '-' :: natToStr (n + 1) := by
    have h2 := stripChars_digits (natToStr (n + 1)) hdig (natToStr_ne_nil _)
    unfold stripChars lstripChars rstripChars at h2 ⊢
    have hm : ([' ', '\t', '`'].contains '-') = false := by decide
    simp only [List.dropWhile_cons, hm, Bool.false_eq_true, if_false]
    -- the right strip never reaches the leading '-' because the last character is a digit
    have hne := natToStr_ne_nil (n + 1)
    cases hr : (natToStr (n + 1)).reverse with
    | nil => exact absurd (by simpa using hr) hne
    | cons y ys =>
      have hy : y ∈ natToStr (n + 1) := by
        have : y ∈ (natToStr (n + 1)).reverse := by rw [hr]; simp
        simpa using this
      have hyd : ([' ', '\t', '`'].contains y) = false := by
        have hdy := hdig y hy
        cases hb' : ([' ', '\t', '`'].contains y) with
        | false => rfl
        | true =>
          simp only [List.contains_cons, List.contains_nil, Bool.or_false, Bool.or_eq_true, beq_iff_eq] at hb'
          rcases hb' with rfl | rfl | rfl <;> revert hdy <;> decide
      simp only [List.reverse_cons, hr, List.append_assoc, List.cons_append, List.nil_append, List.dropWhile_cons, hyd,
        Bool.false_eq_true, if_false]
      have e : natToStr (n + 1) = (y :: ys).reverse := by rw [← hr]; simp
      rw [e]; simp
  have hparse : parseDefaultText ('-' :: natToStr (n + 1)) none = .ok (.int (-((n + 1 : Nat) : Int))) := by
    unfold parseDefaultText
    have hnd : isdecimal ('-' :: natToStr (n + 1)) = false := by
      unfold isdecimal; simp only [List.isEmpty_cons, Bool.not_false, Bool.true_and, List.all_cons]
      have : isAsciiDigit '-' = false := by decide
      simp [this]
    simp only [Bool.false_and, Bool.false_eq_true, if_false, hnd, List.head?_cons, List.drop_succ_cons, List.drop_zero,
      toDigits_isdecimal, beq_self_eq_true, Bool.true_or, Bool.true_and, if_true, parseNat_natToStr]
  simp only [drop_emitted, htake, hstrip, hparse, if_true]

/-- **Default ↔ prose, booleans** ("a bool stays a bool"). -/
theorem extract_bool_roundtrip (b : Str) (v : Bool) (hb : GoodBase b) :
    extractDefault (b ++ defaultsTo ++ renderVal (.bool v)) none true
      = .ok (b ++ defaultsTo ++ renderVal (.bool v), some (.bool v)) := by
  unfold extractDefault
  have hp : '(' ∉ lower (b ++ defaultsTo ++ renderVal (.bool v)) := by
    rw [lower_append, lower_append]
    intro hm
    simp only [List.mem_append] at hm
    rcases hm with (h1 | h2) | h3
    · exact hb.1 h1
    · revert h2; rw [lower_defaultsTo]; decide
    · cases v <;> (revert h3; decide)
  rw [hasParenAnnounce_false _ hp]
  simp only [Bool.false_eq_true, if_false]
  rw [locate_emitted b _ hb]
  simp only [drop_emitted]
  cases v
  · have h : parseDefaultText (stripChars (takeDefault 0 (renderVal (Default.bool false))) [' ', '\t', '`']) none
        = .ok (.bool false) := by decide
    simp only [h, if_true]
  · have h : parseDefaultText (stripChars (takeDefault 0 (renderVal (Default.bool true))) [' ', '\t', '`']) none
        = .ok (.bool true) := by decide
    simp only [h, if_true]

/-! ### emitter side: `set_default_doc` produces exactly that line -/

/-- description as the emitter completes it before appending the default prose -/
def baseOf (d : Str) : Str := match d.getLast? with
  | some c => if c == '.' || c == ',' then d else d ++ ['.']
  | none => d ++ ['.']

/-- `set_default_doc` on an int default: `"<doc>[.] Defaults to <i>"` -/
theorem setDefaultDoc_int (name d : Str) (typ : Option Str) (i : Int)
    (hd : contains d "Defaults".toList = false ∧ contains d "defaults".toList = false) :
    setDefaultDoc name { typ := typ, doc := some d, default := some (.int i) } true
      = .ok (some (baseOf d ++ defaultsTo ++ intToStr i)) := by
  unfold setDefaultDoc baseOf
  simp only [hd.1, hd.2, Bool.or_self, Bool.false_and, Bool.false_eq_true, if_false, Bool.not_false, Bool.true_and, if_true,
    Default.isPyStr, renderVal]
  cases d.getLast? <;> rfl

/-- **emit → parse of one description line, non-negative int default**: composition of the two directions. -/
theorem setDefaultDoc_extract_int (name d : Str) (typ : Option Str) (n : Nat)
    (hd : contains d "Defaults".toList = false ∧ contains d "defaults".toList = false) (hb : GoodBase (baseOf d)) :
    ∃ line, setDefaultDoc name { typ := typ, doc := some d, default := some (.int n) } true = .ok (some line)
      ∧ extractDefault line none true = .ok (line, some (.int n)) := by
  refine ⟨baseOf d ++ defaultsTo ++ natToStr n, ?_, extract_nat_roundtrip _ n hb⟩
  have := setDefaultDoc_int name d typ n hd
  have e : intToStr (n : Int) = natToStr n := by
    unfold intToStr
    have : ¬ ((n : Int) < 0) := by omega
    simp [this]
  rw [e] at this; exact this

/-- with `emit_default_doc=False` and a description that does not mention defaults, nothing is added:
    the emitted text carries no default, so none can be read back or leak onto a neighbour -/
theorem emit_no_default_when_stripped (name d : Str) (typ : Option Str) (v : Option Default)
    (hd : contains d "Defaults".toList = false ∧ contains d "defaults".toList = false) :
    setDefaultDoc name { typ := typ, doc := some d, default := v } false = .ok (some d) := by
  unfold setDefaultDoc
  simp only [hd.1, hd.2, Bool.or_self, Bool.false_and, Bool.false_eq_true, if_false, Bool.not_false, Bool.and_false]
  cases v <;> rfl

/-! ### quoting laws (also used by C08) -/

/-- `unquote (quote s) = s` for a string that is not already wrapped in quotes and is non-empty -/
theorem quote_unquote (s : Str) (hne : s ≠ [])
    (hq : ¬ (s.length > 1 ∧ s.head? = s.getLast? ∧ (s.head? = some '\'' ∨ s.head? = some '"'))) :
    unquote (quote s) = s := by
  unfold quote
  have h1 : s.isEmpty = false := by cases s with | nil => exact absurd rfl hne | cons _ _ => rfl
  have h2 : (decide (s.length > 1) && s.head? == s.getLast? && (s.head? == some '\'' || s.head? == some '"')) = false := by
    cases hb : (decide (s.length > 1) && s.head? == s.getLast? && (s.head? == some '\'' || s.head? == some '"')) with
    | false => rfl
    | true =>
      simp only [Bool.and_eq_true, decide_eq_true_eq, beq_iff_eq, Bool.or_eq_true] at hb
      exact absurd ⟨hb.1.1, hb.1.2, hb.2⟩ hq
  simp only [h1, h2, Bool.or_self, Bool.false_eq_true, if_false]
  unfold unquote
  have hlen : (['"'] ++ s ++ ['"']).length > 1 := by simp
  have hh : (['"'] ++ s ++ ['"']).head? = some '"' := by simp
  have hl : (['"'] ++ s ++ ['"']).getLast? = some '"' := by simp [List.getLast?_cons, List.getLast?_append]
  simp only [hlen, hh, hl, decide_true, beq_self_eq_true, Bool.and_self, Bool.true_or, if_true]
  simp

/-- quoting is idempotent: a quoted string is left alone -/
theorem unquote_quote_idem (s : Str) : quote (quote s) = quote s := by
  unfold quote
  split
  · rename_i h; simp only [h, if_true]
  · have hlen : (['"'] ++ s ++ ['"']).length > 1 := by simp
    have hh : (['"'] ++ s ++ ['"']).head? = some '"' := by simp
    have hl : (['"'] ++ s ++ ['"']).getLast? = some '"' := by simp [List.getLast?_cons, List.getLast?_append]
    simp only [hlen, hh, hl, decide_true, beq_self_eq_true, Bool.and_self, Bool.or_true, Bool.true_and, if_true]

/-! ### string defaults ("a string stays a string") -/

/-- **Domain of string defaults** (decidable): non-empty text of plain characters (no `.`, no bracket), without quote
    characters, backticks or parentheses — what the emitter then wraps in double quotes. -/
def GoodStr (s : Str) : Prop :=
  s ≠ [] ∧ s.all plainChar = true ∧ '"' ∉ s ∧ '\'' ∉ s ∧ '(' ∉ lower s

/-- the emitter's rendering of such a default under a type that needs quoting: `"<s>"` -/
theorem quote_good (s : Str) (h : GoodStr s) : quote s = '"' :: (s ++ ['"']) := by
  unfold quote
  have h1 : s.isEmpty = false := by cases s with | nil => exact absurd rfl h.1 | cons _ _ => rfl
  have h2 : (decide (s.length > 1) && s.head? == s.getLast? && (s.head? == some '\'' || s.head? == some '"')) = false := by
    cases hb : (decide (s.length > 1) && s.head? == s.getLast? && (s.head? == some '\'' || s.head? == some '"')) with
    | false => rfl
    | true =>
      simp only [Bool.and_eq_true, decide_eq_true_eq, beq_iff_eq, Bool.or_eq_true] at hb
      rcases hb.2 with hq | hq
      · exact absurd (List.mem_of_mem_head? hq) h.2.2.2.1
      · exact absurd (List.mem_of_mem_head? hq) h.2.2.1
  simp only [h1, h2, Bool.or_self, Bool.false_eq_true, if_false]
  rfl

/-- the value cascade leaves a double-quoted text as a string (it is neither a number, a boolean, nor inf/nan) -/
theorem parse_quoted_text (t : Str) : parseDefaultText ('"' :: t) none = .ok (.str ('"' :: t)) := by
  unfold parseDefaultText
  have hd : isdecimal ('"' :: t) = false := by
    unfold isdecimal
    have : isAsciiDigit '"' = false := by decide
    simp [this]
  have hall : ('"' :: t).all (fun c => isAsciiDigit c || c == '.' || c == 'e' || c == 'E' || c == '-' || c == '+' || c == '_') = false := by
    have : (isAsciiDigit '"' || ('"' : Char) == '.' || ('"' : Char) == 'e' || ('"' : Char) == 'E' || ('"' : Char) == '-' || ('"' : Char) == '+' || ('"' : Char) == '_') = false := by decide
    rw [List.all_cons, this, Bool.false_and]
  have hft : isFloatText ('"' :: t) = false := by
    unfold isFloatText
    have h1 : (some ('"' : Char) == some '-' || some ('"' : Char) == some '+') = false := by decide
    have h2 : isAsciiDigit '"' = false := by decide
    simp only [List.head?_cons, h1, Bool.false_eq_true, if_false, List.takeWhile_cons, h2, List.isEmpty_nil, Bool.not_true,
      Bool.false_and]
  have hne1 : (('"' :: t) == sTrue) = false := by
    cases hb : (('"' :: t) == sTrue) with
    | false => rfl
    | true => have := beq_iff_eq.mp hb; simp [sTrue] at this
  have hne2 : (('"' :: t) == sFalse) = false := by
    cases hb : (('"' :: t) == sFalse) with
    | false => rfl
    | true => have := beq_iff_eq.mp hb; simp [sFalse] at this
  have hlow : ∀ w : Str, w.head? ≠ some '"' → (lower ('"' :: t) == w) = false := by
    intro w hw
    cases hb : (lower ('"' :: t) == w) with
    | false => rfl
    | true =>
      have e := beq_iff_eq.mp hb
      have : (lower ('"' :: t)).head? = some '"' := by
        unfold lower; simp only [List.map_cons, List.head?_cons]; congr 1
      rw [e] at this; exact absurd this hw
  have hs1 : (some ('"' : Char) == some '-' || some ('"' : Char) == some '+') = false := by decide
  have i1 := hlow "inf".toList (by decide)
  have i2 := hlow "nan".toList (by decide)
  have i3 := hlow "infinity".toList (by decide)
  have i4 := hlow "-inf".toList (by decide)
  have i5 := hlow "+inf".toList (by decide)
  simp only [Bool.false_and, Bool.false_eq_true, if_false, hd, List.head?_cons, hs1, hne1, hne2, hft, hall, Bool.and_false,
    i1, i2, i3, i4, i5, Bool.or_self]

/-- **Default ↔ prose, strings** ("a string stays a string"): the quoted text is read back verbatim, and removing the
    quotes (`unquote`, done by `interpolate_defaults`) gives the original string. -/
theorem extract_str_roundtrip (b s : Str) (hb : GoodBase b) (hs : GoodStr s) :
    extractDefault (b ++ defaultsTo ++ quote s) none true = .ok (b ++ defaultsTo ++ quote s, some (.str (quote s)))
      ∧ unquote (quote s) = s := by
  have hq := quote_good s hs
  refine ⟨?_, ?_⟩
  · rw [hq]
    unfold extractDefault
    have hp : '(' ∉ lower (b ++ defaultsTo ++ '"' :: (s ++ ['"'])) := by
      rw [lower_append, lower_append]
      intro hm
      simp only [List.mem_append] at hm
      rcases hm with (h1 | h2) | h3
      · exact hb.1 h1
      · revert h2; rw [lower_defaultsTo]; decide
      · have : lower ('"' :: (s ++ ['"'])) = '"' :: (lower s ++ ['"']) := by
          unfold lower; simp only [List.map_cons, List.map_append, List.map_nil]; rfl
        rw [this] at h3
        simp only [List.mem_cons, List.mem_append, List.mem_singleton] at h3
        rcases h3 with h | h | h
        · revert h; decide
        · exact hs.2.2.2.2 h
        · rcases h with h | h
          · revert h; decide
          · cases h
    rw [hasParenAnnounce_false _ hp]
    simp only [Bool.false_eq_true, if_false]
    rw [locate_emitted b _ hb]
    have hplain : ('"' :: (s ++ ['"'])).all plainChar = true := by
      simp only [List.all_cons, List.all_append, List.all_nil, Bool.and_true, hs.2.1]
      decide
    have hstrip : stripChars ('"' :: (s ++ ['"'])) [' ', '\t', '`'] = '"' :: (s ++ ['"']) := by
      unfold stripChars lstripChars rstripChars
      have hm : ([' ', '\t', '`'].contains '"') = false := by decide
      simp only [List.dropWhile_cons, hm, Bool.false_eq_true, if_false]
      have : ('"' :: (s ++ ['"'])).reverse = '"' :: (s.reverse ++ ['"']) := by simp
      rw [this]
      simp only [List.dropWhile_cons, hm, Bool.false_eq_true, if_false]
      simp
    simp only [drop_emitted, takeDefault_plain 0 _ hplain, hstrip, parse_quoted_text, if_true]
  · exact quote_unquote s hs.1 (by
      intro h
      rcases h.2.2 with hq' | hq'
      · exact hs.2.2.2.1 (List.mem_of_mem_head? hq')
      · exact hs.2.2.1 (List.mem_of_mem_head? hq'))

/-- non-vacuity of the string domain -/
example : GoodStr ['b', 'a', 'r', ' ', 'b', 'a', 'z'] := by
  refine ⟨by decide, by decide, by decide, by decide, by decide⟩

/-! ### float defaults ("a float stays a float") -/

theorem takeWhile_digits_dot (a rest : Str) (ha : ∀ c ∈ a, c.isDigit = true) :
    (a ++ '.' :: rest).takeWhile isAsciiDigit = a := by
  induction a with
  | nil =>
    have : isAsciiDigit '.' = false := by decide
    simp [List.takeWhile_cons, this]
  | cons c cs ih =>
    have hc : isAsciiDigit c = true := by rw [isAsciiDigit_eq]; exact ha c (by simp)
    simp only [List.cons_append, List.takeWhile_cons, hc, if_true]
    rw [ih (fun d hd => ha d (by simp [hd]))]

theorem takeDefault_float (a f : Str) (ha : ∀ c ∈ a, c.isDigit = true) (hf : ∀ c ∈ f, c.isDigit = true) (hfne : f ≠ []) :
    takeDefault 0 (a ++ '.' :: f) = a ++ '.' :: f := by
  induction a with
  | nil =>
    cases f with
    | nil => exact absurd rfl hfne
    | cons d ds =>
      have hdd : d.isDigit = true := hf d (by simp)
      have hd : isAsciiDigit d = true := by rw [isAsciiDigit_eq]; exact hdd
      have hbr : (('.' : Char) == '{' || ('.' : Char) == '[' || ('.' : Char) == '(' || ('.' : Char) == ')' || ('.' : Char) == ']' || ('.' : Char) == '}') = false := by decide
      have hrest := takeDefault_digits 0 (d :: ds) hf
      show takeDefault 0 ('.' :: d :: ds) = '.' :: d :: ds
      rw [takeDefault]
      simp only [hd, Bool.not_true, Bool.and_false, Bool.false_and, Bool.false_eq_true, if_false, hbr]
      rw [hrest]
  | cons c cs ih =>
    have hc : c.isDigit = true := ha c (by simp)
    have hdot : (c == '.') = false := by
      cases hd : (c == '.') with
      | false => rfl
      | true => have : c = '.' := by simpa using hd
                subst this; revert hc; decide
    have hbr : (c == '{' || c == '[' || c == '(' || c == ')' || c == ']' || c == '}') = false := by
      cases hb' : (c == '{' || c == '[' || c == '(' || c == ')' || c == ']' || c == '}') with
      | false => rfl
      | true =>
        simp only [Bool.or_eq_true, beq_iff_eq] at hb'
        rcases hb' with ((((rfl | rfl) | rfl) | rfl) | rfl) | rfl <;> revert hc <;> decide
    simp only [List.cons_append, takeDefault, hdot, Bool.false_and, Bool.false_eq_true, if_false, hbr]
    rw [ih (fun d hd => ha d (by simp [hd]))]

theorem digit_not_strip (c : Char) (hc : c.isDigit = true) : ([' ', '\t', '`'].contains c) = false := by
  cases hb : ([' ', '\t', '`'].contains c) with
  | false => rfl
  | true =>
    simp only [List.contains_cons, List.contains_nil, Bool.or_false, Bool.or_eq_true, beq_iff_eq] at hb
    rcases hb with rfl | rfl | rfl <;> revert hc <;> decide

/-- stripping a character class is the identity when neither the first nor the last character is in it -/
theorem stripChars_id (c : Char) (t : Str) (cs : List Char) (l : Char) (hl : (c :: t).getLast? = some l)
    (hc : cs.contains c = false) (hll : cs.contains l = false) : stripChars (c :: t) cs = c :: t := by
  unfold stripChars lstripChars rstripChars
  simp only [List.dropWhile_cons, hc, Bool.false_eq_true, if_false]
  cases hr : (c :: t).reverse with
  | nil => simp at hr
  | cons y ys =>
    have e : (c :: t) = ys.reverse ++ [y] := by
      have := congrArg List.reverse hr
      simpa using this
    have hy : (c :: t).getLast? = some y := by rw [e]; simp
    rw [hl] at hy
    cases hy
    simp only [List.dropWhile_cons, hll, Bool.false_eq_true, if_false]
    rw [← hr]; simp

/-- the value cascade reads `<digits>.<digits>` as a float with that text -/
theorem parse_float_text (c : Char) (a f : Str) (hc : c.isDigit = true) (ha : ∀ x ∈ a, x.isDigit = true)
    (hf : ∀ x ∈ f, x.isDigit = true) (hfne : f ≠ []) :
    parseDefaultText (c :: a ++ '.' :: f) none = .ok (.float (c :: a ++ '.' :: f)) := by
  unfold parseDefaultText
  have hcd : isAsciiDigit c = true := by rw [isAsciiDigit_eq]; exact hc
  have hdec : isdecimal (c :: a ++ '.' :: f) = false := by
    unfold isdecimal
    have : isAsciiDigit '.' = false := by decide
    simp [List.all_append, this]
  have hsign : (some c == some '-' || some c == some '+') = false := by
    cases hb : (some c == some '-' || some c == some '+') with
    | false => rfl
    | true =>
      simp only [Bool.or_eq_true, beq_iff_eq, Option.some.injEq] at hb
      rcases hb with rfl | rfl <;> revert hc <;> decide
  have hT : ((c :: a ++ '.' :: f) == sTrue) = false := by
    cases hb : ((c :: a ++ '.' :: f) == sTrue) with
    | false => rfl
    | true =>
      have := beq_iff_eq.mp hb
      simp only [sTrue, List.cons_append, List.cons.injEq] at this
      have := this.1; subst this; revert hc; decide
  have hF : ((c :: a ++ '.' :: f) == sFalse) = false := by
    cases hb : ((c :: a ++ '.' :: f) == sFalse) with
    | false => rfl
    | true =>
      have := beq_iff_eq.mp hb
      simp only [sFalse, List.cons_append, List.cons.injEq] at this
      have := this.1; subst this; revert hc; decide
  have hft : isFloatText (c :: a ++ '.' :: f) = true := by
    unfold isFloatText
    have hca : ∀ x ∈ c :: a, x.isDigit = true := by
      intro x hx; simp only [List.mem_cons] at hx; rcases hx with rfl | h
      · exact hc
      · exact ha x h
    simp only [List.cons_append, List.head?_cons, hsign, Bool.false_eq_true, if_false]
    have htw := takeWhile_digits_dot (c :: a) f hca
    simp only [List.cons_append] at htw
    rw [htw]
    simp only [List.isEmpty_cons, Bool.not_false, Bool.true_and, List.length_cons, List.drop_succ_cons]
    have hdrop : List.drop a.length (a ++ '.' :: f) = '.' :: f := by
      rw [List.drop_append]; simp
    rw [hdrop]
    simp only [List.head?_cons, beq_self_eq_true, Bool.true_and, List.drop_succ_cons, List.drop_zero]
    have hfe : f.isEmpty = false := by cases f with | nil => exact absurd rfl hfne | cons _ _ => rfl
    simp only [hfe, Bool.not_false, Bool.true_and, List.all_eq_true]
    intro x hx; rw [isAsciiDigit_eq]; exact hf x hx
  have hcanon : floatCanon (c :: a ++ '.' :: f) = c :: a ++ '.' :: f := by
    unfold floatCanon
    have : (some c == some '+') = false := by
      cases hb : (some c == some '+') with
      | false => rfl
      | true => simp only [beq_iff_eq, Option.some.injEq] at hb; subst hb; revert hc; decide
    simp [this]
  simp only [List.cons_append] at hdec hT hF hft hcanon ⊢
  simp only [Bool.false_and, Bool.false_eq_true, if_false, hdec, List.head?_cons, hsign, hT, hF, hft, if_true, hcanon]

/-- **Default ↔ prose, non-negative decimals** `<digits>.<digits>` ("a float stays a float"): the text is read back as a
    float whose `repr` text is the emitted one (the generator only emits decimals with `repr(float(s)) == s`). -/
theorem extract_float_roundtrip (b : Str) (c : Char) (a f : Str) (hb : GoodBase b) (hc : c.isDigit = true)
    (ha : ∀ x ∈ a, x.isDigit = true) (hf : ∀ x ∈ f, x.isDigit = true) (hfne : f ≠ []) :
    extractDefault (b ++ defaultsTo ++ (c :: a ++ '.' :: f)) none true
      = .ok (b ++ defaultsTo ++ (c :: a ++ '.' :: f), some (.float (c :: a ++ '.' :: f))) := by
  unfold extractDefault
  have hca : ∀ x ∈ c :: a, x.isDigit = true := by
    intro x hx; simp only [List.mem_cons] at hx; rcases hx with rfl | h
    · exact hc
    · exact ha x h
  have hlow : lower (c :: a ++ '.' :: f) = c :: a ++ '.' :: f := by
    have e : (c :: a ++ '.' :: f) = (c :: a) ++ ('.' :: f) := rfl
    rw [e, lower_append, lower_digits _ hca]
    have : lower ('.' :: f) = '.' :: f := by
      have h2 := lower_digits f hf
      unfold lower at h2 ⊢
      simp only [List.map_cons, h2]; congr 1
    rw [this]
  have hval : '(' ∉ (c :: a ++ '.' :: f) := by
    intro h
    have hx : ∀ x ∈ (c :: a ++ '.' :: f), x.isDigit = true ∨ x = '.' := by
      intro x hx
      simp only [List.cons_append, List.mem_cons, List.mem_append] at hx
      rcases hx with rfl | hx | rfl | hx
      · exact Or.inl hc
      · exact Or.inl (ha x hx)
      · exact Or.inr rfl
      · exact Or.inl (hf x hx)
    rcases hx '(' h with h1 | h1
    · revert h1; decide
    · revert h1; decide
  have hp : '(' ∉ lower (b ++ defaultsTo ++ (c :: a ++ '.' :: f)) := by
    rw [lower_append, lower_append, hlow]
    intro hm
    rcases List.mem_append.mp hm with h12 | h3
    · rcases List.mem_append.mp h12 with h1 | h2
      · exact hb.1 h1
      · revert h2; rw [lower_defaultsTo]; decide
    · exact hval h3
  rw [hasParenAnnounce_false _ hp]
  simp only [Bool.false_eq_true, if_false]
  rw [locate_emitted b _ hb]
  have htake := takeDefault_float (c :: a) f hca hf hfne
  simp only [List.cons_append] at htake
  obtain ⟨l, hl, hld⟩ : ∃ l, (c :: (a ++ '.' :: f)).getLast? = some l ∧ l.isDigit = true := by
    cases hr : f.getLast? with
    | none => exact absurd (List.getLast?_eq_none_iff.mp hr) hfne
    | some l =>
      refine ⟨l, ?_, hf l (List.mem_of_getLast? hr)⟩
      have : (c :: (a ++ '.' :: f)) = (c :: a ++ ['.']) ++ f := by simp
      rw [this, List.getLast?_append, hr]; rfl
  have hstrip := stripChars_id c (a ++ '.' :: f) [' ', '\t', '`'] l hl (digit_not_strip c hc) (digit_not_strip l hld)
  have hparse := parse_float_text c a f hc ha hf hfne
  simp only [List.cons_append] at hparse
  simp only [drop_emitted, List.cons_append, htake, hstrip, hparse, if_true]

/-! ### non-vacuity -/
example : GoodBase ['t', 'h', 'e', ' ', 'x', '.'] := by
  constructor
  · decide
  · intro k hk
    have : k < 7 := by
      have h7 : (lower ['t', 'h', 'e', ' ', 'x', '.'] ++ [' ']).length = 7 := by decide
      omega
    match k, this with
    | 0, _ => decide | 1, _ => decide | 2, _ => decide | 3, _ => decide | 4, _ => decide | 5, _ => decide | 6, _ => decide
/-- a description that already talks about defaults is outside the domain (and outside the statement's) -/
example : ¬ GoodBase "see defaults to x.".toList := by
  intro h
  have := h.2 4 (by decide)
  revert this; decide

end C01
