import CddVerif.Model.Doc
namespace C01
open Py Doc
theorem placeholder : True := trivial
end C01
