import CddVerif.Model.IfaceDomain
/-! # C02 — (work in progress) -/
namespace C02
open Iface
end C02
