import CddVerif.Proofs.IfaceFn
import CddVerif.Proofs.IfaceArgparse
/-!
# C02 — class, pydantic, function and argparse emit → render → parse round trip

`emit f` then `Top.reparse` (rendering to source text and re-reading: CPython, modelled) then `parse f`, for an
arbitrary environment `env : Iface.Env` — the docstring layer of property C01 (`docEmit`, `docParse`,
`extractDefault`, `adhocTyp`) and CPython's expression parser (`pyExpr`) are parameters.  The hypotheses are explicit:

* `EnvOK env` — the one CPython fact used (class / pydantic only): a source wrapped in backticks does not parse;
* `docHyp env f cfg ir = true` — the docstring layer's round trip on this interface (decidable; `Model/IfaceDomain.lean`):
  what `docParse` returns for the docstring `docEmit` produced has the same entries in the same order, the same
  descriptions up to the view's normalisation, announces no default and triggers no ad-hoc type, and carries the emitted
  type / default wherever the format has no other carrier;
* `inD02 env f cfg ir = true` — the interface lies in the region where format `f` applies the statement's
  normalisations *only* (decidable; the clauses that are narrower than the statement are matched by the negations below).

`norm f` is exactly the statement's per-format normalisation.  All four theorems are proved for every number of
parameters (induction over the parameter list) and every configuration (`style`, `emit_default_doc`, and for functions
`type_annotations`, `emit_as_kwonlyargs`; `static` / `self` / `cls`).
-/
namespace C02
open Iface

deriving instance DecidableEq for Except

/-- **The statement's normalisations, nothing else:** a function parameter without default is shown as `=None`;
    argparse keeps a return entry only when it has a default value. -/
def norm (f : Format) (ir : IR) : IR :=
  match f with
  | .class_ | .pydantic => ir
  | .function =>
    { ir with params := ir.params.map (fun kv => (kv.1, if kv.2.default.isNone then { kv.2 with default := some (.val (.str NoneStr)) } else kv.2)) }
  | .argparse => { ir with returns := ir.returns.bind (fun r => if r.default.isSome then some r else none) }

/-- emit, render + re-read, parse, view (names in order, types, typed defaults, normalised descriptions, return entry) -/
def roundTrip (env : Env) (f : Format) (cfg : Cfg) (ir : IR) : Except String (List PV × Option PV) := do
  let t ← emit env f cfg ir
  let ir' ← parse env f t.reparse
  pure ir'.view

/-- signature-legal interface descriptions: distinct names, defaults form a suffix -/
def Legal (ir : IR) : Prop := namesOk ir = true ∧ defaultsSuffix ir.params = true
instance (ir : IR) : Decidable (Legal ir) := by unfold Legal; infer_instance

/-- **The full statement** (for one environment): every signature-legal interface, every format and configuration —
    given the docstring layer's own round trip — comes back as `norm f ir`.  It does NOT hold of the unchanged code
    (negations below); `C02_class`, `C02_pydantic`, `C02_function`, `C02_argparse` prove it on `inD02`. -/
def C02_full (env : Env) : Prop :=
  ∀ f cfg ir, Legal ir → docHyp env f cfg ir = true → roundTrip env f cfg ir = .ok (norm f ir).view

/-- **Class (partial: on `inD02`).** names, order, types, typed defaults and descriptions of every attribute and of the
    return entry survive `class_` emit → source → `class_` parse, for every number of attributes. -/
theorem C02_class (env : Env) (hEnv : EnvOK env) (cfg : Cfg) (ir : IR)
    (hD : inD02 env .class_ cfg ir = true) (hH : docHyp env .class_ cfg ir = true) :
    roundTrip env .class_ cfg ir = .ok (norm .class_ ir).view := by
  have := class_roundtrip env hEnv false { cfg with classBases := ["object"] } ir hD hH
  simpa [roundTrip, emit, parse, norm, classRoundTrip] using this

/-- **Pydantic (partial: on `inD02`).** the same through `pydantic` emit (`BaseModel` base) and parse (`infer_type=True`). -/
theorem C02_pydantic (env : Env) (hEnv : EnvOK env) (cfg : Cfg) (ir : IR)
    (hD : inD02 env .pydantic cfg ir = true) (hH : docHyp env .pydantic cfg ir = true) :
    roundTrip env .pydantic cfg ir = .ok (norm .pydantic ir).view := by
  have := class_roundtrip env hEnv true { cfg with classBases := ["BaseModel"] } ir hD hH
  simpa [roundTrip, emit, parse, norm, classRoundTrip] using this

/-- **Function / method (partial: on `inD02`).** with types as annotations or in the docstring, keyword-only or positional,
    `static` / `self` / `cls`: every parameter comes back with its name, place, type, description and default — a
    parameter without default as `None` (the statement's normalisation) — and so does the return entry. -/
theorem C02_function (env : Env) (cfg : Cfg) (ir : IR)
    (hD : inD02 env .function cfg ir = true) (hH : docHyp env .function cfg ir = true) :
    roundTrip env .function cfg ir = .ok (norm .function ir).view := by
  have := function_roundtrip env cfg ir hD hH
  unfold functionRoundTrip normFn normEntry at this
  unfold roundTrip emit parse norm
  exact this

/-- **Argparse (partial: on `inD02`).** every `add_argument` call is read back as the parameter it was emitted from
    (`type=`, `help=`, `required=`, `default=`; a falsy default `0` / `0.0` / `False` / `""` is a default, not an absent
    one); the return entry survives only with a default (the statement's normalisation). -/
theorem C02_argparse (env : Env) (cfg : Cfg) (ir : IR)
    (hD : inD02 env .argparse cfg ir = true) (hH : docHyp env .argparse cfg ir = true) :
    roundTrip env .argparse cfg ir = .ok (norm .argparse ir).view := by
  have := argparse_roundtrip env cfg ir hD hH
  simpa [roundTrip, emit, parse, norm, argparseRoundTrip, normArgparse] using this

/-! ## a concrete environment (non-vacuity and negations)

An *ideal* docstring layer: whatever docstring it is given, `docParse` answers the interface `d` chosen below (the
entries with their descriptions), no description announces a default or triggers an ad-hoc type; the expression parser
knows the sources listed in `tbl`. -/

def envOf (raw : String) (d : IR) (tbl : List (String × Expr)) : Env :=
  { docEmit := fun _ _ => raw, docParse := fun _ _ => d, extractDefault := fun _ s => (s, none), adhocTyp := fun _ _ _ => none,
    pyExpr := fun s => (tbl.find? (·.1 == s)).map (·.2) }

theorem envOf_ok (raw : String) (d : IR) (tbl : List (String × Expr)) (h : tbl.all (fun kv => !codeQuoted kv.1) = true) :
    EnvOK (envOf raw d tbl) := by
  intro s hs
  simp only [envOf, Option.map_eq_none_iff, List.find?_eq_none, beq_iff_eq]
  intro kv hkv he
  simp only [List.all_eq_true, Bool.not_eq_true'] at h
  have := h kv hkv
  rw [he, hs] at this
  cases this

/-- eight parameters: no default, falsy defaults on scalar and compound types (`0`, `0.0`, `False`, `""`), `None`
    under `Optional`, a code default under `List[…]`, a negative number; a return entry with a source default -/
def irA : IR :=
  { name := some "F", doc := "Summary.",
    params := [("a", { doc := some "first one", typ := some "int" }),
               ("b", { doc := some "second", typ := some "Optional[int]", default := some (.val (.int 0)) }),
               ("c", { doc := some "third", typ := some "Union[int, float]", default := some (.val (.float "0.0")) }),
               ("d", { doc := some "fourth", typ := some "bool", default := some (.val (.bool false)) }),
               ("e", { doc := some "fifth", typ := some "str", default := some (.val (.str "")) }),
               ("f", { doc := some "sixth", typ := some "Optional[str]", default := some (.val (.str NoneStr)) }),
               ("g", { doc := some "seventh", typ := some "List[int]", default := some (.val (.str "```foo(3)```")) }),
               ("h", { doc := some "eighth", typ := some "int", default := some (.val (.int (-3))) })],
    returns := some { doc := some "the result", typ := some "Optional[str]", default := some (.val (.str "K")) } }
/-- what the ideal docstring layer answers for a class docstring of `irA` (the return entry among the attributes) -/
def dA : IR :=
  { doc := "Summary.",
    params := [("a", { doc := some "first one." }), ("b", { doc := some "second" }), ("c", { doc := some "third" }), ("d", { doc := some "fourth" }),
               ("e", { doc := some "fifth" }), ("f", { doc := some "sixth" }), ("g", { doc := some "seventh" }), ("h", { doc := some "eighth" }),
               ("return_type", { doc := some "the  result." })] }
/-- … and for a function docstring (types in the docstring: `type_annotations=False`) -/
def dAfn : IR :=
  { doc := "Summary.",
    params := [("a", { doc := some "first one.", typ := some "int" }), ("b", { doc := some "second", typ := some "Optional[int]" }),
               ("c", { doc := some "third", typ := some "Union[int, float]" }), ("d", { doc := some "fourth", typ := some "bool" }),
               ("e", { doc := some "fifth", typ := some "str" }), ("f", { doc := some "sixth", typ := some "Optional[str]" }),
               ("g", { doc := some "seventh", typ := some "List[int]" }), ("h", { doc := some "eighth", typ := some "int" })],
    returns := some { doc := some "the  result.", typ := some "Optional[str]" } }
def tblA : List (String × Expr) := [("K", .name "K")]

set_option maxRecDepth 8000 in
/-- non-vacuity of `C02_class` / `C02_pydantic`: `irA` satisfies the hypotheses -/
example : EnvOK (envOf "doc" dA tblA) ∧ inD02 (envOf "doc" dA tblA) .class_ {} irA = true ∧ docHyp (envOf "doc" dA tblA) .class_ {} irA = true :=
  ⟨envOf_ok _ _ _ (by decide), by decide, by decide⟩

set_option maxRecDepth 8000 in
example : inD02 (envOf "doc" dA tblA) .pydantic { style := .numpydoc, emitDefaultDoc := true } irA = true ∧
    docHyp (envOf "doc" dA tblA) .pydantic { style := .numpydoc, emitDefaultDoc := true } irA = true := by decide

set_option maxRecDepth 8000 in
/-- the conclusion on that instance, evaluated: all eight attributes and the return entry come back -/
example : roundTrip (envOf "doc" dA tblA) .class_ {} irA = .ok irA.view := by decide

set_option maxRecDepth 8000 in
/-- non-vacuity of `C02_function`, with the types in the docstring, positional parameters and a `self` receiver -/
example : inD02 (envOf "doc" dAfn tblA) .function { typeAnnotations := false, kwOnly := false } { irA with type := some "self" } = true ∧
    docHyp (envOf "doc" dAfn tblA) .function { typeAnnotations := false, kwOnly := false } { irA with type := some "self" } = true := by decide

/-- argparse: scalar and `Optional[scalar]` parameters with falsy defaults of their own type; a return entry with a default -/
def irB : IR :=
  { name := some "F", doc := "Summary.",
    params := [("a", { doc := some "first one", typ := some "int", default := some (.val (.int 0)) }),
               ("b", { doc := some "second", typ := some "Optional[float]", default := some (.val (.float "0.0")) }),
               ("c", { doc := some "third", typ := some "bool", default := some (.val (.bool false)) }),
               ("d", { typ := some "Optional[str]", default := some (.val (.str "")) }),
               ("e", { doc := some "fifth", typ := some "str", default := some (.val (.str "")) }),
               ("f", { doc := some "sixth", typ := some "Optional[bool]", default := some (.val (.bool false)) })],
    returns := some { doc := some "the result", typ := some "List[int]", default := some (.val (.str "K")) } }
def dB : IR := { doc := "Set CLI arguments", params := [("argument_parser", { doc := some "argument parser", typ := some "ArgumentParser" })],
                 returns := some { doc := some "argument_parser, the result", typ := some "Tuple[ArgumentParser, List[int]]" } }
def rawB : String := "\n    Set CLI arguments\n\n    :return: argument_parser, the result\n    :rtype: ```Tuple[ArgumentParser, List[int]]```\n    "

set_option maxRecDepth 8000 in
/-- non-vacuity of `C02_argparse` -/
example : inD02 (envOf rawB dB tblA) .argparse {} irB = true ∧ docHyp (envOf rawB dB tblA) .argparse {} irB = true := by decide

/-! ## negations: the unchanged code normalises further than the statement allows

Each witness is a signature-legal interface for which the ideal docstring layer satisfies `docHyp`, yet the round trip
differs from `norm f ir` — so `C02_full` fails for that environment.  Every witness is replayed on the real code by
`harness/props/c02.py` (known findings `C02-…`). -/

theorem refute (env : Env) (f : Format) (cfg : Cfg) (ir : IR) (hl : Legal ir) (hh : docHyp env f cfg ir = true)
    (hne : roundTrip env f cfg ir ≠ .ok (norm f ir).view) : ¬ C02_full env :=
  fun h => hne (h f cfg ir hl hh)

def one (n : String) (p : Param) (ret : Option Param := none) : IR := { name := some "F", doc := "Summary.", params := [(n, p)], returns := ret }
def docOne (n : String) (d : String) (t : Option String := none) (ret : Option Param := none) : IR :=
  { doc := "Summary.", params := [(n, { doc := some d, typ := t })], returns := ret }
def envP : Env := envOf "doc" (docOne "x" "a value") []

/-- **argparse gives a parameter without default the zero of its type** (`int` ↦ `0`) -/
theorem argparse_zero_default :
    roundTrip envP .argparse {} (one "x" { doc := some "a value", typ := some "int" }) =
      .ok ([{ name := "x", typ := some "int", default := some (.val (.int 0)), doc := some "a value" }], none) := by decide
theorem C02_full_fails_argparse_zero_default : ¬ C02_full envP :=
  refute envP .argparse {} (one "x" { doc := some "a value", typ := some "int" }) (by decide) (by decide) (by decide)

/-- **argparse turns `bool` without default into `Optional[bool]`** -/
theorem argparse_bool_optional :
    roundTrip envP .argparse {} (one "x" { doc := some "a value", typ := some "bool" }) =
      .ok ([{ name := "x", typ := some "Optional[bool]", default := none, doc := some "a value" }], none) := by decide
theorem C02_full_fails_argparse_bool_optional : ¬ C02_full envP :=
  refute envP .argparse {} (one "x" { doc := some "a value", typ := some "bool" }) (by decide) (by decide) (by decide)

/-- **argparse widens a non-scalar type to `str`** (and gives it the default `""`) -/
theorem argparse_nonscalar_str :
    roundTrip envP .argparse {} (one "x" { doc := some "a value", typ := some "np.ndarray" }) =
      .ok ([{ name := "x", typ := some "str", default := some (.val (.str "")), doc := some "a value" }], none) := by decide
theorem C02_full_fails_argparse_nonscalar_str : ¬ C02_full envP :=
  refute envP .argparse {} (one "x" { doc := some "a value", typ := some "np.ndarray" }) (by decide) (by decide) (by decide)

/-- **argparse keeps one member of a `Union`** (here the type of the default) -/
theorem argparse_union_narrowed :
    roundTrip envP .argparse {} (one "x" { doc := some "a value", typ := some "Union[int, float]", default := some (.val (.int 0)) }) =
      .ok ([{ name := "x", typ := some "int", default := some (.val (.int 0)), doc := some "a value" }], none) := by decide
theorem C02_full_fails_argparse_union_narrowed : ¬ C02_full envP :=
  refute envP .argparse {} (one "x" { doc := some "a value", typ := some "Union[int, float]", default := some (.val (.int 0)) })
    (by decide) (by decide) (by decide)

/-- **argparse drops a `None` default** -/
theorem argparse_none_default_dropped :
    roundTrip (envOf "doc" (docOne "x" "a value") [("(None)", .const .none)]) .argparse {} (one "x" { doc := some "a value", typ := some "Optional[int]", default := some (.val (.str NoneStr)) }) =
      .ok ([{ name := "x", typ := some "Optional[int]", default := none, doc := some "a value" }], none) := by decide
theorem C02_full_fails_argparse_none_default_dropped : ¬ C02_full (envOf "doc" (docOne "x" "a value") [("(None)", .const .none)]) :=
  refute _ .argparse {} (one "x" { doc := some "a value", typ := some "Optional[int]", default := some (.val (.str NoneStr)) })
    (by decide) (by decide) (by decide)

/-- **class / pydantic / function: a code default under a type without `[` deletes the type** -/
theorem class_typ_dropped_code_default :
    roundTrip envP .class_ {} (one "x" { doc := some "a value", typ := some "np.ndarray", default := some (.val (.str "```foo(3)```")) }) =
      .ok ([{ name := "x", typ := none, default := some (.val (.str "```foo(3)```")), doc := some "a value" }], none) := by decide
theorem C02_full_fails_typ_dropped_code_default : ¬ C02_full envP :=
  refute envP .class_ {} (one "x" { doc := some "a value", typ := some "np.ndarray", default := some (.val (.str "```foo(3)```")) })
    (by decide) (by decide) (by decide)

/-- **function: a negative number default under a type that mentions `str` stays an unresolved `UnaryOp` node** -/
theorem function_negative_under_str_type :
    roundTrip envP .function {} (one "x" { doc := some "a value", typ := some "Union[str, int]", default := some (.val (.int (-3))) }) =
      .ok ([{ name := "x", typ := some "Union[str, int]", default := some (.node (.neg (.val (.int 3)))), doc := some "a value" }], none) := by
  decide
theorem C02_full_fails_function_negative_under_str_type : ¬ C02_full envP :=
  refute envP .function {} (one "x" { doc := some "a value", typ := some "Union[str, int]", default := some (.val (.int (-3))) })
    (by decide) (by decide) (by decide)

/-- **a string default wrapped in one kind of quote loses the pair** (`set_value` strips it when the value is written) -/
theorem class_same_quoted_default_unwrapped :
    roundTrip envP .class_ {} (one "x" { doc := some "a value", typ := some "str", default := some (.val (.str "'x'")) }) =
      .ok ([{ name := "x", typ := some "str", default := some (.val (.str "x")), doc := some "a value" }], none) := by decide
theorem C02_full_fails_same_quoted_default_unwrapped : ¬ C02_full envP :=
  refute envP .class_ {} (one "x" { doc := some "a value", typ := some "str", default := some (.val (.str "'x'")) }) (by decide) (by decide) (by decide)

/-- … whereas a default that begins with one kind of quote and ends with the other is inside `D02` and comes back whole
    (an instance of `C02_class`, evaluated) -/
theorem class_mixed_quote_default_kept :
    inD02 envP .class_ {} (one "x" { doc := some "a value", typ := some "str", default := some (.val (.str "'{name}' is not \"{other}\"")) }) = true ∧
    roundTrip envP .class_ {} (one "x" { doc := some "a value", typ := some "str", default := some (.val (.str "'{name}' is not \"{other}\"")) }) =
      .ok ([{ name := "x", typ := some "str", default := some (.val (.str "'{name}' is not \"{other}\"")), doc := some "a value" }], none) := by decide

/-- floats whose `repr` uses exponent notation (`1e+20` first and last, `5e-324`, `-2.5e+16`), `inf` and `-0.0` are inside `D02`: an
    instance of `C02_function` (types in the docstring, `emit_default_doc` on), evaluated -/
def irExp : IR :=
  { name := some "F", doc := "Summary.",
    params := [("a", { doc := some "first", typ := some "float", default := some (.val (.float "1e+20")) }),
               ("b", { doc := some "second", typ := some "Optional[float]", default := some (.val (.float "5e-324")) }),
               ("c", { doc := some "third", typ := some "float", default := some (.val (.float "-2.5e+16")) }),
               ("d", { doc := some "fourth", typ := some "float", default := some (.val (.float "inf")) }),
               ("e", { doc := some "fifth", typ := some "float", default := some (.val (.float "-0.0")) }),
               ("f", { doc := some "sixth", typ := some "float", default := some (.val (.float "1e+20")) })] }
def dExp : IR :=
  { doc := "Summary.",
    params := [("a", { doc := some "first", typ := some "float" }), ("b", { doc := some "second", typ := some "Optional[float]" }),
               ("c", { doc := some "third", typ := some "float" }), ("d", { doc := some "fourth", typ := some "float" }),
               ("e", { doc := some "fifth", typ := some "float" }), ("f", { doc := some "sixth", typ := some "float" })] }
set_option maxRecDepth 8000 in
theorem function_exponent_float_kept :
    inD02 (envOf "doc" dExp []) .function { typeAnnotations := false, emitDefaultDoc := true } irExp = true ∧
    docHyp (envOf "doc" dExp []) .function { typeAnnotations := false, emitDefaultDoc := true } irExp = true ∧
    roundTrip (envOf "doc" dExp []) .function { typeAnnotations := false, emitDefaultDoc := true } irExp = .ok (norm .function irExp).view := by
  decide

def envR (t : String) (tbl : List (String × Expr)) : Env :=
  envOf "doc" (docOne "x" "a value" (some "int") (some { doc := some "the result", typ := some t })) tbl
def irR (t s : String) : IR := one "x" { doc := some "a value", typ := some "int" } (some { doc := some "the result", typ := some t, default := some (.val (.str s)) })

/-- **function: a return type without `[` is deleted by a return statement and re-inferred from the default** (types in
    the docstring) -/
theorem function_return_typ_reinferred :
    roundTrip (envR "int" tblA) .function { typeAnnotations := false } (irR "int" "K") =
      .ok ([{ name := "x", typ := some "int", default := some (.val (.str NoneStr)), doc := some "a value" }],
           some { name := "return_type", typ := some "str", default := some (.val (.str "K")), doc := some "the result" }) := by decide
theorem C02_full_fails_function_return_typ_reinferred : ¬ C02_full (envR "int" tblA) :=
  refute _ .function { typeAnnotations := false } (irR "int" "K") (by decide) (by decide) (by decide)

/-- **function: … and with a code default it stays deleted even when the annotation had restored it** -/
theorem function_return_typ_dropped :
    roundTrip (envR "int" [("foo(3)", .code "foo(3)" false)]) .function {} (irR "int" "```foo(3)```") =
      .ok ([{ name := "x", typ := some "int", default := some (.val (.str NoneStr)), doc := some "a value" }],
           some { name := "return_type", typ := none, default := some (.val (.str "```foo(3)```")), doc := some "the result" }) := by decide
theorem C02_full_fails_function_return_typ_dropped : ¬ C02_full (envR "int" [("foo(3)", .code "foo(3)" false)]) :=
  refute _ .function {} (irR "int" "```foo(3)```") (by decide) (by decide) (by decide)

/-- **function: a bare non-name return source comes back wrapped in backticks** -/
theorem function_return_default_code_quoted :
    roundTrip (envR "Tuple[int, int]" [("(a, b)", .code "(a, b)" true)]) .function {} (irR "Tuple[int, int]" "(a, b)") =
      .ok ([{ name := "x", typ := some "int", default := some (.val (.str NoneStr)), doc := some "a value" }],
           some { name := "return_type", typ := some "Tuple[int, int]", default := some (.val (.str "```(a, b)```")), doc := some "the result" }) := by
  decide
theorem C02_full_fails_function_return_default_code_quoted : ¬ C02_full (envR "Tuple[int, int]" [("(a, b)", .code "(a, b)" true)]) :=
  refute _ .function {} (irR "Tuple[int, int]" "(a, b)") (by decide) (by decide) (by decide)

def dRet : IR := { doc := "Set CLI arguments", params := [("argument_parser", { doc := some "argument parser", typ := some "ArgumentParser" })],
                   returns := some { doc := some "argument_parser, the result", typ := some "Tuple[ArgumentParser, List[int]]" } }
def irRet : IR := { name := some "F", doc := "Summary.", params := [], returns := some { doc := some "the result", typ := some "List[int]", default := some (.val (.str "```foo(3)```")) } }

set_option maxRecDepth 8000 in
/-- **argparse writes a code-quoted return default as a string constant and reads its *source* back** -/
theorem argparse_return_code_quoted :
    roundTrip (envOf rawB dRet []) .argparse {} irRet =
      .ok ([], some { name := "return_type", typ := some "List[int]", default := some (.val (.str "'```foo(3)```'")), doc := some "the result" }) := by
  decide
set_option maxRecDepth 8000 in
theorem C02_full_fails_argparse_return_code_quoted : ¬ C02_full (envOf rawB dRet []) :=
  refute _ .argparse {} irRet (by decide) (by decide) (by decide)

end C02
