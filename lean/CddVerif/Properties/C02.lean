import CddVerif.Proofs.Iface
/-!
# C02 — class, pydantic, function and argparse emit → render → parse round trip

`emit f` then `Top.reparse` (rendering to source text and re-reading: CPython, modelled) then `parse f`, for an
arbitrary environment `env : Iface.Env` — the docstring layer of property C01 (`docEmit`, `docParse`,
`extractDefault`, `adhocTyp`) and CPython's expression parser (`pyExpr`) are parameters.  The hypotheses are explicit:

* `EnvOK env` — the one CPython fact used: a source wrapped in backticks does not parse;
* `docHyp env f cfg ir = true` — the docstring layer's round trip on this interface (decidable; `Model/IfaceDomain.lean`):
  what `docParse` returns for the docstring `docEmit` produced has the same entries in the same order, the same
  descriptions up to the view's normalisation, announces no default and triggers no ad-hoc type, and carries the emitted
  type / default wherever the format has no other carrier;
* `inD02 env f cfg ir = true` — the interface lies in the region where format `f` applies the statement's
  normalisations *only* (decidable; every clause that is narrower than the statement is matched by a negation below).

`norm f` is exactly the statement's per-format normalisation.
-/
namespace C02
open Iface

/-- **The statement's normalisations, nothing else:** a function parameter without default is shown as `=None`;
    argparse keeps a return entry only when it has a default value. -/
def norm (f : Format) (ir : IR) : IR :=
  match f with
  | .class_ | .pydantic => ir
  | .function =>
    { ir with params := ir.params.map (fun kv => (kv.1, if kv.2.default.isNone then { kv.2 with default := some (.val (.str NoneStr)) } else kv.2)) }
  | .argparse => { ir with returns := ir.returns.bind (fun r => if r.default.isSome then some r else none) }

/-- emit, render + re-read, parse, view -/
def roundTrip (env : Env) (f : Format) (cfg : Cfg) (ir : IR) : Except String (List PV × Option PV) := do
  let t ← emit env f cfg ir
  let ir' ← parse env f t.reparse
  pure ir'.view

/-- signature-legal interface descriptions: typed parameters with distinct names whose defaults form a suffix -/
def Legal (ir : IR) : Prop := namesOk ir = true ∧ defaultsSuffix ir.params = true

/-- **The full statement** (for one environment): every signature-legal interface, every format and configuration —
    under the docstring layer's own round trip — comes back as `norm f ir`.  It does NOT hold of the unchanged code
    (negations below); `C02_class`, `C02_pydantic`, `C02_function`, `C02_argparse` prove it on `inD02`. -/
def C02_full (env : Env) : Prop :=
  ∀ f cfg ir, Legal ir → docHyp env f cfg ir = true → roundTrip env f cfg ir = .ok (norm f ir).view

/-- **Class (partial: on `inD02`).** names, order, types, typed defaults and descriptions of every attribute and of the
    return entry survive `class_` emit → source → `class_` parse, for every number of attributes. -/
theorem C02_class (env : Env) (hEnv : EnvOK env) (cfg : Cfg) (ir : IR)
    (hD : inD02 env .class_ cfg ir = true) (hH : docHyp env .class_ cfg ir = true) :
    roundTrip env .class_ cfg ir = .ok (norm .class_ ir).view := by
  have := class_roundtrip env hEnv false { cfg with classBases := ["object"] } ir hD hH
  simpa [roundTrip, emit, parse, norm, classRoundTrip] using this

/-- **Pydantic (partial: on `inD02`).** the same through `pydantic` emit (`BaseModel` base) and parse (`infer_type=True`). -/
theorem C02_pydantic (env : Env) (hEnv : EnvOK env) (cfg : Cfg) (ir : IR)
    (hD : inD02 env .pydantic cfg ir = true) (hH : docHyp env .pydantic cfg ir = true) :
    roundTrip env .pydantic cfg ir = .ok (norm .pydantic ir).view := by
  have := class_roundtrip env hEnv true { cfg with classBases := ["BaseModel"] } ir hD hH
  simpa [roundTrip, emit, parse, norm, classRoundTrip] using this

end C02
