import CddVerif.Proofs.DocGNRoundTripDomain
/-!
# C01 — whole-docstring round trip, Google style, on the model

For every interface in the explicit decidable domain `C01Google.InDomainG` (`Proofs/DocGNRoundTripDomain.lean`) and all
flags: whatever `Doc.emit ir .google et ww edd` returns, `DocGN.parseGN .google` parses into **exactly**
`DocGNRT.expIRG ir edd` (`google_roundtrip_full`):

* header `ir.doc`; no return entry;
* every parameter, same name, same position (`DocGNRT.expParamsG`, which threads the **`require_default` latch**
  `rd` = "some earlier parameter carried a default"), with `doc = docText p edd` as for ReST and
  * a **carried default** `v` (`emit_default_doc` on): `default = v`, `typ` = the declared type, else the name of `v`'s type;
  * **no carried default and the latch off**: `typ` as declared, no default — the identity;
  * **no carried default and the latch on** (the lossy behaviour of the unchanged code, stated rather than excluded):
    `default = simpleDefault typ` — `0`, `0.0`, `0j`, `""`, `False` for the five simple types, else `None`
    (`` ```(None)``` ``) — and, when that default is `None`, a declared type `T` not starting with `Optional[` becomes
    `Optional[T]` (`DocGNRT.typWrap`).
  The Google emitter writes the declared type whether or not `emit_types` is set, and never wraps; so `et`, `ww` play no role.

`google_roundtrip_names/_docs/_header/_returns` are projections, `google_roundtrip_plain` is the exact identity
`parse (emit ir) = ir` (up to the record types) when no default is carried at all.

## Domain (`inDomainGB`)

Header: as for ReST (empty, or no blank at either end), ASCII, not containing `Args:`.  No return entry, at least one
parameter.  Names: as for ReST, non-empty, no blank at either end, no `(`, no line break, pairwise distinct.  Every entry:
a ReST-good entry (`C01Whole.goodEntryB`) whose default — if any — is an integer or a boolean; for both settings of
`emit_default_doc` the emitted description is ASCII and `parse_adhoc_doc_for_typ` (the faithful port `Adhoc.adhocStr`)
proposes no type for it, and the emitted line is ASCII, without line break and does not end in `:`; the description does
not start with `{`; the type has no ` or ` and lies in the `needs_quoting` grammar of the model.

Clauses checked on the *emitted* text (ASCII / no line break / adhoc) are computed, not derived from clauses on the parts.

**Essential** (witness theorems below, evaluated on the model; replayed on the real code, see the report): no return
entry with a header (`return_entry_changes_header`); a description for every entry (`docless_needed`); no ` or ` in types
(`or_type_needed`: rewritten to `Union[…]`); `{…}` descriptions under a type (`brace_doc_needed`: become a `Literal[…]`
type); no `Args:` in the header (`header_args_needed`); no `(` in names (`paren_name_needed`: `AssertionError`); no prose
that triggers the type inference (`adhoc_needed`); types inside the modelled grammar when a default is present
(`grammar_needed`: the model abstains).  The latch is **not** excluded: `latch_gives_default`.
**Convenience**: description not ending in `:` (the line has two colons anyway); `{` without a type; decimals
(`0.5` round-trips on the model); at least one parameter.
-/
namespace C01Google
open Py Doc DocRT DocGN DocGNRT

/-- **Google round trip, full strength** -/
theorem google_roundtrip_full (ir : IR) (et ww edd : Bool) (h : InDomainG ir) (s : Str)
    (he : emit ir .google et ww edd = .ok s) : parseGN .google s edd = .ok (expIRG ir edd) :=
  parse_emitted_google ir et ww edd s (inDomainG_sound ir h) he

theorem expParamsG_names (edd rd : Bool) (ps : List (Str × Param)) : (expParamsG edd rd ps).map (·.1) = ps.map (·.1) := by
  induction ps generalizing rd with
  | nil => rfl
  | cons np r ih => obtain ⟨n, p⟩ := np; simp [expParamsG, ih]

theorem expParamG_doc (rd edd : Bool) (p : Param) : (expParamG rd edd p).doc = some (docText p edd) := by
  unfold expParamG; cases dfltOf p edd <;> cases rd <;> rfl

theorem expParamsG_docs (edd rd : Bool) (ps : List (Str × Param)) :
    (expParamsG edd rd ps).map (fun np => np.2.doc) = ps.map (fun np => some (docText np.2 edd)) := by
  induction ps generalizing rd with
  | nil => rfl
  | cons np r ih => obtain ⟨n, p⟩ := np; simp [expParamsG, ih, expParamG_doc]

/-- **names and order** -/
theorem google_roundtrip_names (ir : IR) (et ww edd : Bool) (h : InDomainG ir) (s : Str)
    (he : emit ir .google et ww edd = .ok s) :
    ∃ ir', parseGN .google s edd = .ok ir' ∧ ir'.params.map (·.1) = ir.params.map (·.1) :=
  ⟨_, google_roundtrip_full ir et ww edd h s he, expParamsG_names edd false ir.params⟩

/-- **descriptions**: the emitted ones (`docText`, with the default prose when carried) -/
theorem google_roundtrip_docs (ir : IR) (et ww edd : Bool) (h : InDomainG ir) (s : Str)
    (he : emit ir .google et ww edd = .ok s) :
    ∃ ir', parseGN .google s edd = .ok ir'
      ∧ ir'.params.map (fun np => np.2.doc) = ir.params.map (fun np => some (docText np.2 edd)) :=
  ⟨_, google_roundtrip_full ir et ww edd h s he, expParamsG_docs edd false ir.params⟩

/-- **header and return entry** -/
theorem google_roundtrip_header (ir : IR) (et ww edd : Bool) (h : InDomainG ir) (s : Str)
    (he : emit ir .google et ww edd = .ok s) :
    ∃ ir', parseGN .google s edd = .ok ir' ∧ ir'.doc = ir.doc ∧ ir'.returns = Option.none :=
  ⟨_, google_roundtrip_full ir et ww edd h s he, rfl, rfl⟩

/-- **types and defaults**, entry by entry with the latch: exactly `expParamsG` -/
theorem google_roundtrip_types_defaults (ir : IR) (et ww edd : Bool) (h : InDomainG ir) (s : Str)
    (he : emit ir .google et ww edd = .ok s) :
    ∃ ir', parseGN .google s edd = .ok ir' ∧ ir'.params = expParamsG edd false ir.params :=
  ⟨_, google_roundtrip_full ir et ww edd h s he, rfl⟩

theorem expParamsG_plain (edd : Bool) (ps : List (Str × Param)) (hno : ∀ np ∈ ps, dfltOf np.2 edd = Option.none) :
    expParamsG edd false ps = ps.map (fun np => (np.1, { typ := np.2.typ, doc := some (docText np.2 edd), default := Option.none })) := by
  induction ps with
  | nil => rfl
  | cons np r ih =>
    obtain ⟨n, p⟩ := np
    have h0 := hno (n, p) (by simp)
    simp only at h0
    simp only [expParamsG, expParamG, h0, Option.isSome_none, Bool.or_self, Bool.false_eq_true, if_false, List.map_cons]
    rw [ih (fun x hx => hno x (by simp [hx]))]

/-- **the identity** when no default is carried (`emit_default_doc` off, or no parameter has a default): names, declared
    types and descriptions come back unchanged, no default appears -/
theorem google_roundtrip_plain (ir : IR) (et ww edd : Bool) (h : InDomainG ir) (s : Str)
    (he : emit ir .google et ww edd = .ok s) (hno : edd = false ∨ ∀ np ∈ ir.params, np.2.default = Option.none) :
    parseGN .google s edd
      = .ok ⟨ir.doc, ir.params.map (fun np => (np.1, { typ := np.2.typ, doc := np.2.doc, default := Option.none })), Option.none⟩ := by
  rw [google_roundtrip_full ir et ww edd h s he]
  have hd : ∀ np ∈ ir.params, dfltOf np.2 edd = Option.none := by
    intro np hnp
    unfold dfltOf
    rcases hno with rfl | hno
    · rfl
    · rw [hno np hnp]; cases edd <;> rfl
  unfold expIRG
  rw [expParamsG_plain edd ir.params hd]
  congr 2
  apply List.map_congr_left
  intro np hnp
  have g := ((inDomainG_sound ir h).entries np hnp).base
  cases hdoc : np.2.doc with
  | none => exact absurd hdoc g.docSome
  | some d =>
    have : docText np.2 edd = d := by
      unfold docText; rw [hdoc]; simp only []
      have := hd np hnp; unfold dfltOf at this; rw [this]
    rw [this]

/-! ### non-vacuity -/

/-- header; a typed parameter; an untyped one with an integer default; a typed one with a boolean default; then three
    parameters without default (typed `Foo`, untyped, typed `int`) that the latch reaches -/
def exG : IR :=
  { doc := g!"Train it.",
    params := [
      (g!"lr", { typ := some g!"float", doc := some g!"learning rate: step size" }),
      (g!"epochs", { doc := some g!"how long", default := some (.int 10) }),
      (g!"verbose", { typ := some g!"bool", doc := some g!"print progress,", default := some (.bool true) }),
      (g!"model", { typ := some g!"Foo", doc := some g!"the model" }),
      (g!"tag", { doc := some g!"a label" }),
      (g!"seed", { typ := some g!"int", doc := some g!"the seed" })] }

example : InDomainG exG := by decide +kernel

set_option maxRecDepth 100000 in
example : emit exG .google true true true = .ok g!"Train it.\n\nArgs:\n  lr (float): learning rate: step size\n  epochs: how long. Defaults to 10\n  verbose (bool): print progress, Defaults to True\n  model (Foo): the model\n  tag: a label\n  seed (int): the seed\n" := by
  decide +kernel

/-- **the latch** on the example (instance of the theorem, spelled out by evaluation of `expIRG`): after `epochs` carried
    a default, `model : Foo` comes back as `Optional[Foo] = None`, `tag` as `= None`, `seed : int` as `= 0` -/
theorem latch_gives_default :
    (expIRG exG true).params.map (fun np => (np.1, np.2.typ, np.2.default))
      = [(g!"lr", some g!"float", Option.none),
         (g!"epochs", some g!"int", some (.base (.int 10))),
         (g!"verbose", some g!"bool", some (.base (.bool true))),
         (g!"model", some g!"Optional[Foo]", some (.base .none)),
         (g!"tag", Option.none, some (.base .none)),
         (g!"seed", some g!"int", some (.base (.int 0)))] := by decide +kernel

/-- with `emit_default_doc` off nothing is carried and the example comes back unchanged (hypothesis of `_plain`) -/
example : (match emit exG .google false false false with | .ok _ => true | .outside _ => false) = true := by decide +kernel

/-! ### why the clauses are there (model witnesses) -/

def roundTripG (ir : IR) (edd : Bool) : Option (R GIR) :=
  match emit ir .google true true edd with
  | .ok s => some (parseGN .google s edd)
  | .outside _ => Option.none

/-- a return entry next to a header: the header comes back with a trailing newline (the return entry itself survives here) -/
theorem return_entry_changes_header :
    roundTripG { doc := g!"H", params := [(g!"a", { doc := some g!"x" })], returns := some { typ := some g!"int", doc := some g!"res" } } true
      = some (.ok ⟨g!"H\n", [(g!"a", { doc := some g!"x" })], some { typ := some g!"int", doc := some g!"res" }⟩) := by
  decide +kernel

/-- a parameter without description comes back with `doc` absent — fine — but is outside the entry domain -/
theorem docless_needed :
    roundTripG { params := [(g!"a", { typ := some g!"int" }), (g!"b", { doc := some g!"bee" })] } true
      = some (.ok ⟨[], [(g!"a", { typ := some g!"int" }), (g!"b", { doc := some g!"bee" })], Option.none⟩) := by
  decide +kernel

/-- ` or ` in a type is rewritten to a `Union` -/
theorem or_type_needed :
    roundTripG { params := [(g!"a", { typ := some g!"int or str", doc := some g!"x" })] } true
      = some (.ok ⟨[], [(g!"a", { typ := some g!"Union[int, str]", doc := some g!"x" })], Option.none⟩) := by decide +kernel

/-- a `{…}` description under a declared type becomes a `Literal[…]` type and the description is lost -/
theorem brace_doc_needed :
    roundTripG { params := [(g!"a", { typ := some g!"str", doc := some g!"{'x', 'y'}" })] } true
      = some (.ok ⟨[], [(g!"a", { typ := some g!"Literal['x', 'y']" })], Option.none⟩) := by decide +kernel

/-- `Args:` inside the header: the section is looked for there, every parameter is lost -/
theorem header_args_needed :
    roundTripG { doc := g!"See Args: below", params := [(g!"a", { doc := some g!"x" })] } true
      = some (.ok ⟨g!"See\n\nArgs:\n  a: x", [], Option.none⟩) := by decide +kernel

/-- `(` in a name: `AssertionError` -/
theorem paren_name_needed :
    roundTripG { params := [(g!"a(b", { doc := some g!"x" })] } true = some (.raises "AssertionError") := by decide +kernel

/-- prose that triggers `parse_adhoc_doc_for_typ`: a type appears -/
theorem adhoc_needed :
    roundTripG { params := [(g!"a", { doc := some g!"number of epochs" })] } true
      = some (.ok ⟨[], [(g!"a", { typ := some g!"int", doc := some g!"number of epochs" })], Option.none⟩) := by decide +kernel

/-- a type outside the modelled `needs_quoting` grammar next to a default: the model abstains -/
theorem grammar_needed :
    roundTripG { params := [(g!"a", { typ := some g!"a b c", doc := some g!"x", default := some (.int 1) })] } true
      = some (.outside "needs_quoting: type outside the modelled grammar") := by decide +kernel

end C01Google
