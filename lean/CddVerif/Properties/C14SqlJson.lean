import CddVerif.Proofs.SqlJsonWF
/-!
# C14 — well-formed interface descriptions from the SQLAlchemy and the JSON-schema model parsers

Statement (properties.jsonl, C14): *whatever a parser accepts, what it returns has the documented shape: … each parameter
name is a non-empty string without leading asterisks that appears once, each entry has only the keys type, description,
default (and the extension key), the type is a string that parses as a Python expression …; either no return entry or
exactly one entry called return_type.*

Here: the two model parsers that `Properties/C14.lean` / `C14GN.lean` do not cover, each over its **whole input type**
(every `Sql.TableCall` / `Sql.ClassDef`, every `JsonSchema.J` — not only emitter images).  The models are tied to the
real code by the C05 / C06 correspondences; the witnesses of the negations below were replayed on the real parsers.

## SQLAlchemy (`Sql.parseTableCall` = `parse.sqlalchemy_table(Call)`, `Sql.parseTable` = `…(Assign)`,
## `Sql.parseClass` = `parse.sqlalchemy` / `parse.sqlalchemy_hybrid`)

1. names distinct — **full**: `sql_names_distinct`, `sql_names_distinct_assign`, `sql_names_distinct_class`.  The parser
   builds `OrderedDict(map(column_call_to_param, …))`; the exact statement is `sql_names_first_occurrences` (keys = first
   occurrences of the column names, in order) and `sql_no_column_merged_iff` (nothing is merged iff the column names are
   distinct).  The input format does **not** guarantee distinct column names: a `Table(…)` call may list two `Column`s
   with the same string, a class body may assign the same target twice; both are silently merged (last value wins).
2. names non-empty, no leading `*` — **negation** on the table form: `sql_names_good_full_false` (witnesses `Column("", …)`
   and `Column("*args", …)`, both accepted by the real parser); exact statement `sql_names_good_iff` (the names are good
   iff every *string constant* standing first in a `Column(…)` call is; a `Name` there is an identifier).  For the
   declarative class form the name is `set_value(target)` (`sql_class_names`); a Python class body guarantees that an
   assignment target is an identifier, and then the names are good: `sql_class_names_good`.
3. a present `typ` is non-empty — **full**: `sql_typ_nonempty` (+ `_assign`, `_class`).  The type comes from
   `column_type2typ.get(id, id)` (table regenerated from the source, `Gen.SqlTables`): no table value is empty
   (`decide`); a miss yields the identifier itself and no `x_typ` (`sql_type_table_miss`); no type argument at all
   yields **no** `typ` key (example below), never an empty one.
4. return entry — **not carried by the model**: `Sql.ParsedIR` has a name and the parameters only; the table comment /
   class docstring (`headerText`) is not read by the model parser (`sql_result_ignores_header`), the docstring parser
   that derives `returns` from it is C14 / C14GN territory and is evaluated on the real outputs by the harness.
+  keys of a record — **negation** `sql_only_documented_keys_false`: a positional argument the parser does not understand
   is stored under the key `None` (real code: `{'typ': 'int', None: 'x', 'x_typ': …}`).

## JSON schema (`JsonSchema.parse` = `cdd.json_schema.parse.json_schema`)

1. names distinct — the parser maps over `schema["properties"].items()`: `json_names_are_property_keys` (names = keys,
   one for one, in order), hence `json_names_distinct_iff`.  The model's input type `J` is an association list and *can*
   repeat a key (`json_names_distinct_full_false`); the real input is a Python `dict`, which **cannot** (and
   `json.loads` of a text with a repeated key keeps the last one), so on the real code the side condition always holds.
2. names non-empty, no leading `*` — **negation** `json_names_good_full_false` (a JSON object may have the keys `""` and
   `"*args"`; accepted by the real parser); exact statement `json_names_good_iff`.
3. a present `typ` is non-empty — **full**: `json_typ_nonempty`; when it is present: `json_typ_present_iff`; a miss in
   `json_type2typ` raises (`json_type_miss_raises`); a falsy `type` (`""`) gives no `typ` and leaves the undocumented
   key `type` in the record (`json_falsy_type_kept`).
4. return entry — the models' `PIR.returns : Option PRet` is "absent or exactly `return_type`" by construction;
   `json_returns_none_iff` says when it is absent (reference model of the docstring parser on the description);
   **negation** `json_return_typ_nonempty_full_false`: the description ":rtype: ``````" yields a return type `""`
   (the real parser agrees: `{'return_type': {'typ': ''}}`).
-/
namespace C14SqlJson

/-! ## SQLAlchemy -/
section SqlPart
open Py Sql Sql.WF

/-- the parameter names of a parsed interface, in order -/
def sqlNames (ir : ParsedIR) : List Str := ir.params.map (·.1)

/-- a table with a repeated column name, a column whose type is not in the table, and a nullable column -/
def sampleTable : TableCall :=
  { tname := c!"t", metaName := c!"metadata",
    cols := [ { args := [.const (.str c!"a"), .name c!"Integer"], kws := [(c!"primary_key", .bool true)] },
              { args := [.const (.str c!"b"), .name c!"Foo"], kws := [(c!"nullable", .bool true)] },
              { args := [.name c!"c", .enum [c!"x", c!"y"] c!"c"], kws := [] },
              { args := [.const (.str c!"d")], kws := [] },
              { args := [.const (.str c!"a"), .name c!"String"], kws := [] } ] }

/-- what the model parser makes of it: `a` once (position of the first, value of the last), `Foo` as it is, no `typ`
    for `d` -/
example : (parseTableCall sampleTable).toOption.map (fun ir => ir.params.map (fun kp => (kp.1, kp.2.typ))) =
    some [(c!"a", some c!"str"), (c!"b", some c!"Optional[Foo]"), (c!"c", some c!"Literal['x', 'y']"), (c!"d", none)] := by
  decide

/-! ### 1. names pairwise distinct -/

/-- **clause "each parameter name … appears once"**, `parse.sqlalchemy_table(Call)` — full, every `Table(…)` call. -/
theorem sql_names_distinct (t : TableCall) (ir : ParsedIR) (h : parseTableCall t = .ok ir) : (sqlNames ir).Nodup := by
  obtain ⟨ps, _, rfl⟩ := parseTableCall_ok h
  exact dictOfPairs_keys_nodup ps

/-- **clause "appears once"**, `parse.sqlalchemy_table(Assign)` — full. -/
theorem sql_names_distinct_assign (a : Str × TableCall) (ir : ParsedIR) (h : parseTable a = .ok ir) :
    (sqlNames ir).Nodup :=
  sql_names_distinct a.2 ir (parseTable_reduces h)

/-- **clause "appears once"**, `parse.sqlalchemy(ClassDef)` / `parse.sqlalchemy_hybrid(ClassDef)` — full, every class
    body (declarative or hybrid). -/
theorem sql_names_distinct_class (cls : ClassDef) (ir : ParsedIR) (h : parseClass cls = .ok ir) : (sqlNames ir).Nodup := by
  obtain ⟨tbl, _, ht⟩ := parseClass_ok h
  exact sql_names_distinct tbl ir ht

/-- non-vacuity: `sampleTable` is accepted (and has a repeated column name) -/
example : ∃ ir, parseTableCall sampleTable = .ok ir ∧ sqlNames ir = [c!"a", c!"b", c!"c", c!"d"] ∧
    columnNames sampleTable.cols = .ok [c!"a", c!"b", c!"c", c!"d", c!"a"] := by
  refine ⟨_, rfl, ?_, ?_⟩ <;> decide

/-- **exact form of "appears once"**: the parameter names are the first occurrences of the column names
    (`get_value(call.args[0])` of every `Column(…)`), in call order. -/
theorem sql_names_first_occurrences (t : TableCall) (ir : ParsedIR) (h : parseTableCall t = .ok ir) :
    ∃ names, columnNames t.cols = .ok names ∧ sqlNames ir = firstOcc names :=
  parseTableCall_keys h

/-- **which side condition the input would have to bring**: no column is merged into an earlier one iff the column
    names are pairwise distinct.  Neither a `Table(…)` call nor a class body guarantees that (Python accepts
    `Table("t", m, Column("a", …), Column("a", …))` and `a = Column(…); a = Column(…)`): a repeated name is silently
    merged, position of the first, value of the last. -/
theorem sql_no_column_merged_iff (t : TableCall) (ir : ParsedIR) (names : List Str) (h : parseTableCall t = .ok ir)
    (hn : columnNames t.cols = .ok names) : sqlNames ir = names ↔ names.Nodup := by
  obtain ⟨names', hn', hk⟩ := parseTableCall_keys h
  replace hk : sqlNames ir = firstOcc names' := hk
  rw [hn] at hn'
  cases hn'
  constructor
  · intro e; rw [← e]; exact sql_names_distinct t ir h
  · intro hnd; rw [hk, firstOcc_of_nodup names hnd]

/-- a repeated column name makes the result shorter than the column list -/
theorem sql_repeated_column_dropped (t : TableCall) (ir : ParsedIR) (names : List Str) (h : parseTableCall t = .ok ir)
    (hn : columnNames t.cols = .ok names) (hrep : ¬ names.Nodup) : (sqlNames ir).length < names.length := by
  obtain ⟨names', hn', hk⟩ := parseTableCall_keys h
  replace hk : sqlNames ir = firstOcc names' := hk
  rw [hn] at hn'
  cases hn'
  rw [hk]
  exact firstOcc_length_lt names hrep

/-- non-vacuity of both: `sampleTable` has the column names `a b c d a` -/
example : columnNames sampleTable.cols = .ok [c!"a", c!"b", c!"c", c!"d", c!"a"] ∧
    ¬ [c!"a", c!"b", c!"c", c!"d", c!"a"].Nodup := by
  constructor <;> decide

/-! ### 2. names non-empty, without leading asterisk -/

/-- full statement of **clause "each parameter name is a non-empty string without leading asterisks"** on the table form -/
def sql_names_good_full : Prop :=
  ∀ (t : TableCall) (ir : ParsedIR), parseTableCall t = .ok ir → ∀ k ∈ sqlNames ir, GoodName k

/-- **exact statement**: the names are well formed iff every *string constant* that stands first in a `Column(…)` call
    is (a `Name` standing there is an identifier: non-empty, no asterisk).  The parser does not look at the string. -/
theorem sql_names_good_iff (t : TableCall) (ir : ParsedIR) (h : parseTableCall t = .ok ir) :
    (∀ k ∈ sqlNames ir, GoodName k) ↔
    (∀ c ∈ t.cols, ∀ s, c.args.head? = some (.const (.str s)) → GoodName s) := by
  obtain ⟨names, hn, hk⟩ := parseTableCall_keys h
  replace hk : sqlNames ir = firstOcc names := hk
  constructor
  · intro hg c hc s hs
    apply hg s
    rw [hk, mem_firstOcc, columnNames_mem hn]
    refine ⟨c, hc, ?_⟩
    unfold columnName
    rw [hs]
  · intro hg k hk'
    rw [hk, mem_firstOcc, columnNames_mem hn] at hk'
    obtain ⟨c, hc, hcn⟩ := hk'
    rcases columnName_cases hcn with hh | ⟨_, hi⟩
    · exact hg c hc k hh
    · exact isIdentifier_good hi

/-- non-vacuity: on `sampleTable` both sides hold -/
example : ∀ c ∈ sampleTable.cols, ∀ s, c.args.head? = some (.const (.str s)) → GoodName s := by
  intro c hc s hs
  simp only [sampleTable, List.mem_cons, List.not_mem_nil, or_false] at hc
  rcases hc with rfl | rfl | rfl | rfl | rfl <;> simp only [List.head?_cons, Option.some.injEq, Arg.const.injEq, Val.str.injEq, reduceCtorEq] at hs
  all_goals (subst hs; decide)

/-- **negation, empty name**: `Table("t", metadata, Column("", Integer))` is accepted and yields a parameter called `""`
    (real parser: `{"": {"typ": "int", "x_typ": {"sql": {"type": "Integer"}}}}`). -/
theorem sql_empty_name_witness :
    parseTableCall { tname := c!"t", metaName := c!"metadata",
                     cols := [{ args := [.const (.str []), .name c!"Integer"], kws := [] }] } =
      .ok { name := c!"t", params := [([], { typ := some c!"int", xSqlType := some c!"Integer" })] } := by decide

/-- **negation, leading asterisk**: `Column("*args", String)` is accepted and yields a parameter called `*args`
    (real parser: `{"*args": {"typ": "str", …}}`). -/
theorem sql_star_name_witness :
    parseTableCall { tname := c!"t", metaName := c!"metadata",
                     cols := [{ args := [.const (.str c!"*args"), .name c!"String"], kws := [] }] } =
      .ok { name := c!"t", params := [(c!"*args", { typ := some c!"str", xSqlType := some c!"String" })] } := by decide

/-- hence the clause is false of the model parser on the table form -/
theorem sql_names_good_full_false : ¬ sql_names_good_full := by
  intro h
  have := h _ _ sql_empty_name_witness [] (by simp [sqlNames])
  exact this.1 rfl

/-- the asterisk half on its own -/
theorem sql_names_no_star_false :
    ¬ (∀ (t : TableCall) (ir : ParsedIR), parseTableCall t = .ok ir → ∀ k ∈ sqlNames ir, startsWith k ['*'] = false) := by
  intro h
  have := h _ _ sql_star_name_witness c!"*args" (by simp [sqlNames])
  revert this
  decide

/-- **declarative class form: where the names come from** — every parameter name is `set_value(target)` of a
    `target = Column(…)` statement of the body. -/
theorem sql_class_names (cls : ClassDef) (tbl : TableCall) (ir : ParsedIR) (hc : classToTable cls = .ok (.inr tbl))
    (h : parseTableCall tbl = .ok ir) :
    ∀ k ∈ sqlNames ir, ∃ t c, Stmt.assignCol t c ∈ cls.body ∧ k = setValueStr t := by
  obtain ⟨names, hn, hk⟩ := parseTableCall_keys h
  replace hk : sqlNames ir = firstOcc names := hk
  intro k hk'
  rw [hk, mem_firstOcc, columnNames_mem hn] at hk'
  obtain ⟨c, hcm, hcn⟩ := hk'
  obtain ⟨t, c0, hb, rfl⟩ := classToTable_inr hc c hcm
  rw [columnName_mergeName] at hcn
  cases hcn
  exact ⟨t, c0, hb, rfl⟩

/-- **clause "non-empty, no leading asterisk" for the declarative class form** — holds under the side condition the
    input format guarantees: in a parsed Python class body the target of `name = Column(…)` is an identifier
    (`TargetOk`; the model's `Stmt.assignCol` takes any string, hence the hypothesis). -/
theorem sql_class_names_good (cls : ClassDef) (tbl : TableCall) (ir : ParsedIR) (hc : classToTable cls = .ok (.inr tbl))
    (h : parseClass cls = .ok ir) (hid : ∀ t c, Stmt.assignCol t c ∈ cls.body → TargetOk t) :
    ∀ k ∈ sqlNames ir, GoodName k := by
  have ht : parseTableCall tbl = .ok ir := by
    unfold parseClass at h
    rw [hc] at h
    exact h
  intro k hk
  obtain ⟨t, c, hb, rfl⟩ := sql_class_names cls tbl ir hc ht k hk
  obtain ⟨hg, h1, h2⟩ := hid t c hb
  rw [setValueStr_of_head t h1 h2]
  exact hg

/-- the same with the hypothesis as the model's own (ASCII) identifier test -/
theorem sql_class_names_good_identifiers (cls : ClassDef) (tbl : TableCall) (ir : ParsedIR)
    (hc : classToTable cls = .ok (.inr tbl)) (h : parseClass cls = .ok ir)
    (hid : ∀ t c, Stmt.assignCol t c ∈ cls.body → isIdentifier t = true) : ∀ k ∈ sqlNames ir, GoodName k :=
  sql_class_names_good cls tbl ir hc h (fun t c hm => targetOk_of_identifier (hid t c hm))

/-- a declarative class with two columns -/
def sampleClass : ClassDef :=
  { name := c!"A",
    body := [.docstring c!"doc", .assignStr c!"__tablename__" c!"a",
             .assignCol c!"id" { args := [.name c!"Integer"], kws := [(c!"primary_key", .bool true)] },
             .assignCol c!"größe" { args := [.name c!"Float"], kws := [] }] }

/-- non-vacuity of `sql_class_names_good` -/
example : (∃ tbl, classToTable sampleClass = .ok (.inr tbl)) ∧
    (parseClass sampleClass).toOption.map (fun ir => ir.params.map (fun kp => (kp.1, kp.2.typ))) =
      some [(c!"id", some c!"int"), (c!"größe", some c!"float")] ∧
    (∀ t c, Stmt.assignCol t c ∈ sampleClass.body → TargetOk t) := by
  refine ⟨⟨_, rfl⟩, by decide, ?_⟩
  intro t c hm
  simp only [sampleClass, List.mem_cons, List.not_mem_nil, or_false, reduceCtorEq, false_or, Stmt.assignCol.injEq] at hm
  rcases hm with ⟨rfl, _⟩ | ⟨rfl, _⟩ <;> (unfold TargetOk; decide)

/-- the hypothesis is needed on the model's input type: a target `""` (no Python class body has one) gives the name `""` -/
example : (parseClass { name := c!"A", body := [.assignStr c!"__tablename__" c!"a",
      .assignCol [] { args := [.name c!"Integer"], kws := [] }] }).toOption.map (fun ir => sqlNames ir) = some [[]] := by
  decide

/-! ### 3. a present type is a non-empty string -/

/-- **clause "the type is a (non-empty) string"**, `parse.sqlalchemy_table(Call)` — full, every `Table(…)` call. -/
theorem sql_typ_nonempty (t : TableCall) (ir : ParsedIR) (h : parseTableCall t = .ok ir) :
    ∀ kp ∈ ir.params, ∀ ty, kp.2.typ = some ty → ty ≠ [] :=
  fun kp hkp => parseTableCall_typNE h kp hkp

/-- the same for `parse.sqlalchemy_table(Assign)` — full. -/
theorem sql_typ_nonempty_assign (a : Str × TableCall) (ir : ParsedIR) (h : parseTable a = .ok ir) :
    ∀ kp ∈ ir.params, ∀ ty, kp.2.typ = some ty → ty ≠ [] :=
  sql_typ_nonempty a.2 ir (parseTable_reduces h)

/-- the same for `parse.sqlalchemy(ClassDef)` / `parse.sqlalchemy_hybrid(ClassDef)` — full. -/
theorem sql_typ_nonempty_class (cls : ClassDef) (ir : ParsedIR) (h : parseClass cls = .ok ir) :
    ∀ kp ∈ ir.params, ∀ ty, kp.2.typ = some ty → ty ≠ [] := by
  obtain ⟨tbl, _, ht⟩ := parseClass_ok h
  exact sql_typ_nonempty tbl ir ht

/-- non-vacuity: `sampleTable` has present types (and one absent) -/
example : ∃ ir, parseTableCall sampleTable = .ok ir ∧ ir.params.map (fun kp => kp.2.typ.isSome) = [true, true, true, false] := by
  refine ⟨_, rfl, ?_⟩; decide

/-- **table fact behind it** (regenerated `column_type2typ`): no value is the empty string -/
theorem sql_table_values_nonempty : ∀ kv ∈ Gen.SqlTables.columnType2Typ, kv.2 ≠ [] := columnType2Typ_values_ne

/-- **what a table miss does**: a first or second positional `Name(id)` that `column_type2typ` does not list becomes the
    type string `id` itself (`column_type2typ.get(id, id)`), and no `x_typ.sql.type` is recorded — never an empty or a
    missing type. -/
theorem sql_type_table_miss (r : Raw) (i : Nat) (id : Str) (hid : isIdentifier id = true) (hmiss : inCol2typ id = false)
    (hi : i < 2) : parseArg r i (.name id) = .ok { r with typ := some id } := by
  simp [parseArg, reparse, hid, hi, hmiss, col2typ_miss hmiss]

/-- non-vacuity: `Foo` is an identifier the table does not list -/
example : isIdentifier c!"Foo" = true ∧ inCol2typ c!"Foo" = false ∧
    parseArg {} 1 (.name c!"Foo") = .ok { typ := some c!"Foo" } := by decide

/-! ### 4. the return entry -/

/-- **return entry: not carried by the model.**  The result of the model parser does not depend on the table comment /
    class docstring (`headerText`) the real parser hands to the docstring parser to obtain `doc` and `returns`;
    `ParsedIR` has no `returns` field.  (The shape of what the docstring parser returns is C14 / C14GN; the real
    `returns` is evaluated by the harness.) -/
theorem sql_result_ignores_header (t : TableCall) (hdr : Option Str) :
    parseTableCall { t with headerText := hdr } = parseTableCall t := by
  cases t; rfl

/-! ### keys of a parameter record -/

/-- the keys outside `typ` / `doc` / `default` / `x_typ` the model parser can produce -/
def OnlyDocumentedKeys (p : Parsed) : Prop := p.noneKey = none ∧ p.comment = none ∧ p.serverDefault = none

/-- full statement of **clause "each entry has only the keys type, description, default (and the extension key)"** -/
def sql_only_documented_keys_full : Prop :=
  ∀ (t : TableCall) (ir : ParsedIR), parseTableCall t = .ok ir → ∀ kp ∈ ir.params, OnlyDocumentedKeys kp.2

/-- **negation**: `Column("a", Integer, "x")` — the third positional argument is stored under the key `None`
    (real parser: `{'a': {'typ': 'int', None: 'x', 'x_typ': {'sql': {'type': 'Integer'}}}}`). -/
theorem sql_none_key_witness :
    parseTableCall { tname := c!"t", metaName := c!"metadata",
                     cols := [{ args := [.const (.str c!"a"), .name c!"Integer", .const (.str c!"x")], kws := [] }] } =
      .ok { name := c!"t", params := [(c!"a", { typ := some c!"int", xSqlType := some c!"Integer",
                                                 noneKey := some (.str c!"x") })] } := by decide

theorem sql_only_documented_keys_false : ¬ sql_only_documented_keys_full := by
  intro h
  have := (h _ _ sql_none_key_witness _ (List.mem_singleton.mpr rfl)).1
  revert this
  decide

end SqlPart

/-! ## JSON schema -/
section JsonPart
open Py JsonSchema JsonSchema.WF Gen.JsonSchemaTables

/-- the parameter names of a parsed schema, in order -/
def jsonNames (pir : PIR) : List Str := pir.params.map (·.1)

/-- a schema with typed, untyped, pattern and `kwargs` properties, a `required` list and a return entry -/
def sampleSchema : J :=
  .obj [(js!"description", .str js!"hello\n:return: foo\n:rtype: ```int```"),
        (js!"properties", .obj [(js!"a", .obj [(js!"type", .str js!"string")]),
                                 (js!"b", .obj [(js!"type", .str js!"integer"), (js!"default", .int 5)]),
                                 (js!"p", .obj [(js!"pattern", .str js!"x|y")]),
                                 (js!"y", .obj []),
                                 (js!"zkwargs", .obj [])]),
        (js!"required", .arr [.str js!"b"])]

example : (parse sampleSchema).toOption.map (fun pir => (pir.params.map (fun np => (np.1, np.2.typ)), pir.returns)) =
    some ([(js!"a", some js!"Optional[str]"), (js!"b", some js!"int"), (js!"p", some js!"Optional[Literal['x', 'y']]"),
           (js!"y", none), (js!"zkwargs", some js!"Optional[dict]")],
          some { typ := some js!"int", doc := some js!"foo" }) := by decide

/-! ### 1. names pairwise distinct -/

/-- **exact statement**: the parser maps over `schema["properties"].items()` — the parameter names are the keys of the
    `properties` object, one for one and in order (every JSON value the parser accepts). -/
theorem json_names_are_property_keys (j : J) (pir : PIR) (h : parse j = .ok pir) :
    jsonNames pir = (propsOf j).map (·.1) :=
  parse_keys h

/-- **clause "each parameter name … appears once"**: holds iff the keys of the `properties` object are pairwise distinct.
    That side condition is guaranteed by the real input format: the parser receives a Python `dict`, which cannot hold a
    key twice (`json.loads` of a text with a repeated key keeps the last value). -/
theorem json_names_distinct_iff (j : J) (pir : PIR) (h : parse j = .ok pir) :
    (jsonNames pir).Nodup ↔ ((propsOf j).map (·.1)).Nodup := by
  rw [json_names_are_property_keys j pir h]

/-- the direction the property needs, as a theorem with the side condition as hypothesis -/
theorem json_names_distinct (j : J) (pir : PIR) (h : parse j = .ok pir) (hnd : ((propsOf j).map (·.1)).Nodup) :
    (jsonNames pir).Nodup :=
  (json_names_distinct_iff j pir h).mpr hnd

/-- non-vacuity -/
example : ((propsOf sampleSchema).map (·.1)).Nodup ∧ ∃ pir, parse sampleSchema = .ok pir := by
  refine ⟨by decide, _, rfl⟩

/-- the statement without the side condition, over the model's input type -/
def json_names_distinct_full : Prop := ∀ (j : J) (pir : PIR), parse j = .ok pir → (jsonNames pir).Nodup

/-- **negation on the model's input type** (an association list *can* repeat a key; no Python `dict` can, so this
    witness has no counterpart on the real code): the parser itself does nothing to make names distinct. -/
theorem json_names_distinct_full_false : ¬ json_names_distinct_full := by
  intro h
  have := h (.obj [(js!"properties", .obj [(js!"a", .obj []), (js!"a", .obj [])])]) _ rfl
  revert this
  decide

/-! ### 2. names non-empty, without leading asterisk -/

/-- full statement of **clause "each parameter name is a non-empty string without leading asterisks"** -/
def json_names_good_full : Prop := ∀ (j : J) (pir : PIR), parse j = .ok pir → ∀ k ∈ jsonNames pir, GoodName k

/-- **exact statement**: the names are well formed iff the keys of the `properties` object are.  The parser only tests
    `name.endswith("kwargs")` and `name not in required`. -/
theorem json_names_good_iff (j : J) (pir : PIR) (h : parse j = .ok pir) :
    (∀ k ∈ jsonNames pir, GoodName k) ↔ (∀ k ∈ (propsOf j).map (·.1), GoodName k) := by
  rw [json_names_are_property_keys j pir h]

/-- non-vacuity: the keys of `sampleSchema` are well formed -/
example : ∀ k ∈ (propsOf sampleSchema).map (·.1), GoodName k := by decide

/-- **negation, empty name and leading asterisk**: `{"properties": {"": {"type": "string"}, "*args": {"type": "integer"}}}`
    is a JSON object (any string is a key) and is accepted; the real parser returns
    `{"": {"typ": "Optional[str]"}, "*args": {"typ": "Optional[int]"}}`. -/
theorem json_bad_names_witness :
    (parse (.obj [(js!"properties", .obj [([], .obj [(js!"type", .str js!"string")]),
                                          (js!"*args", .obj [(js!"type", .str js!"integer")])])])).toOption.map
      (fun pir => pir.params.map (fun np => (np.1, np.2.typ))) =
    some [([], some js!"Optional[str]"), (js!"*args", some js!"Optional[int]")] := by decide

theorem json_names_good_full_false : ¬ json_names_good_full := by
  intro h
  have := h (.obj [(js!"properties", .obj [([], .obj [(js!"type", .str js!"string")]),
                                          (js!"*args", .obj [(js!"type", .str js!"integer")])])]) _ rfl [] (by decide)
  exact this.1 rfl

/-- the asterisk half on its own -/
theorem json_names_no_star_false :
    ¬ (∀ (j : J) (pir : PIR), parse j = .ok pir → ∀ k ∈ jsonNames pir, startsWith k ['*'] = false) := by
  intro h
  have := h (.obj [(js!"properties", .obj [([], .obj [(js!"type", .str js!"string")]),
                                          (js!"*args", .obj [(js!"type", .str js!"integer")])])]) _ rfl js!"*args" (by decide)
  revert this
  decide

/-! ### 3. a present type is a non-empty string -/

/-- **clause "the type is a (non-empty) string"** — full, every JSON value the parser accepts. -/
theorem json_typ_nonempty (j : J) (pir : PIR) (h : parse j = .ok pir) :
    ∀ np ∈ pir.params, ∀ ty, np.2.typ = some ty → ty ≠ [] :=
  fun np hnp => parse_typNE h np hnp

/-- non-vacuity: `sampleSchema` is accepted with four present types and one absent -/
example : ∃ pir, parse sampleSchema = .ok pir ∧ pir.params.map (fun np => np.2.typ.isSome) = [true, true, true, false, true] := by
  refine ⟨_, rfl, ?_⟩; decide

/-- **table fact behind it** (regenerated `json_type2typ`): no value is the empty string -/
theorem json_table_values_nonempty : ∀ kv ∈ jsonType2typ, kv.2 ≠ [] := jsonType2typ_values_ne

/-- **when the `typ` key is present** (per property, `json_schema_property_to_param`): exactly when the name ends in
    `kwargs`, or `type` is truthy, or `pattern` is truthy — otherwise the key is absent (not empty). -/
theorem json_typ_present_iff (req : List Str) (name : Str) (kvs : List (Str × J)) (p : PParam)
    (h : parseProp req name (.obj kvs) = .ok p) :
    p.typ.isSome = true ↔
      (endsWith name js!"kwargs" = true ∨ optTruthy (lookup js!"type" kvs) = true ∨
       optTruthy (lookup js!"pattern" kvs) = true) := by
  rw [parseProp_typ_isSome h]
  simp only [Bool.or_eq_true, or_assoc]

/-- non-vacuity: the three ways a type appears, and the way it does not -/
example : (parseProp [] js!"kwargs" (.obj [])).toOption.map (·.typ) = some (some js!"Optional[dict]") ∧
    (parseProp [] js!"a" (.obj [(js!"type", .str js!"number")])).toOption.map (·.typ) = some (some js!"Optional[float]") ∧
    (parseProp [js!"a"] js!"a" (.obj [(js!"pattern", .str js!"u")])).toOption.map (·.typ) = some (some js!"Literal['u']") ∧
    (parseProp [] js!"a" (.obj [(js!"description", .str js!"d")])).toOption.map (·.typ) = some none := by decide

/-- **what a table miss does**: a non-empty string `type` that `json_type2typ` does not list raises `KeyError` — no
    result, hence no empty or missing type from a miss. -/
theorem json_type_miss_raises (req : List Str) (name : Str) (kvs : List (Str × J)) (s : Str)
    (hfrag : outOfFragment.any (fun k => hasKey k kvs) = false)
    (ht : lookup js!"type" kvs = some (.str s)) (hs : s ≠ []) (hmiss : lookup s jsonType2typ = none) :
    parseProp req name (.obj kvs) = .error js!"KeyError" :=
  parseProp_type_miss hfrag ht hs hmiss

/-- non-vacuity: `"type": "str"` is a miss (the table is keyed by JSON type names) -/
example : outOfFragment.any (fun k => hasKey k [(js!"type", J.str js!"str")]) = false ∧
    lookup js!"type" [(js!"type", J.str js!"str")] = some (.str js!"str") ∧ js!"str" ≠ [] ∧
    lookup js!"str" jsonType2typ = none := by decide

/-- **a falsy `type`** (`""`, `null`, `0`, `[]`, `{}`) is neither used nor popped: no `typ` comes from it, and the
    record keeps the undocumented key `type` (real parser on `{"x": {"type": ""}}`: `{"x": {"type": ""}}`) — a
    violation of the clause "each entry has only the keys type, description, default". -/
theorem json_falsy_type_kept (req : List Str) (name : Str) (kvs : List (Str × J)) (p : PParam) (t : J)
    (ht : lookup js!"type" kvs = some t) (hf : t.truthy = false) (h : parseProp req name (.obj kvs) = .ok p) :
    (js!"type", t) ∈ p.extra :=
  parseProp_falsy_type_kept ht hf h

/-- non-vacuity (and the witness itself) -/
example : parseProp [js!"x"] js!"x" (.obj [(js!"type", .str [])]) =
    .ok { typ := none, doc := none, default := none, extra := [(js!"type", .str [])] } := by decide

/-! ### 4. the return entry -/

/-- **return entry**: `PIR.returns` is `none` or one `PRet` (the `return_type` entry) by construction of the type; it is
    absent exactly when no line of the top-level `description` starts with `:return:` / `:rtype:` (the model's
    reference parser for the description; a schema without `description` has the description `""`). -/
theorem json_returns_none_iff (j : J) (pir : PIR) (h : parse j = .ok pir) :
    pir.returns = none ↔ ∀ l ∈ splitNl (descOf j), isRetLine l = false := by
  obtain ⟨_, _, _, _, hr⟩ := parse_ok h
  rw [hr]
  exact parseDesc_returns_none _

/-- non-vacuity, both ways -/
example : (parse sampleSchema).toOption.map (·.returns.isSome) = some true ∧
    (parse (.obj [(js!"description", .str js!"just prose"), (js!"properties", .obj [])])).toOption.map (·.returns) = some none := by
  decide

/-- full statement of the type clause for the return entry -/
def json_return_typ_nonempty_full : Prop :=
  ∀ (j : J) (pir : PIR) (r : PRet) (ty : Str), parse j = .ok pir → pir.returns = some r → r.typ = some ty → ty ≠ []

/-- **negation**: the description ":rtype: ``````" (an `:rtype:` with nothing between the backticks) yields the return
    type `""` — the real parser agrees: `{"returns": {"return_type": {"typ": ""}}}`.  (This is the docstring parser's
    behaviour reached through the schema's description; the reference model is tied to the code on the trigger-free
    domain only, the witness was replayed by hand.) -/
theorem json_return_typ_nonempty_full_false : ¬ json_return_typ_nonempty_full := by
  intro h
  have := h (.obj [(js!"description", .str js!":rtype: ``````")]) _ { typ := some [], doc := none } [] rfl
    (by decide) rfl
  exact this rfl

end JsonPart

end C14SqlJson
