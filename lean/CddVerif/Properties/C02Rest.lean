import CddVerif.Properties.C08Iface
import CddVerif.Proofs.IfaceRestEnv
/-!
# C02 with a concrete docstring layer (ReST): no abstract `env.docEmit` / `env.docParse` left

`Properties/C02.lean` proves the class / pydantic / function / argparse round trips for an *arbitrary* environment
`env : Iface.Env` under the decidable hypothesis `docHyp env f cfg ir` about the docstring layer's answers.  Here the
docstring layer is the character-level model of the real ReST emitter and parser (`Model/Doc.lean`, with the two pieces of
`cdd/docstring/emit.py` it lacked — `purpose="class"` and `indent_level > 0` — ported in `Model/IfaceRestEnv.lean`), the
prose type inference is `Model/Adhoc.lean`; only CPython's expression parser `pyExpr` stays a parameter:

    IfaceRest.restEnv pyExpr : Iface.Env

1. **It computes** (`example`s below, evaluated by the kernel): for a three-parameter interface with defaults the four
   round trips through `restEnv` succeed with the expected view; the docstrings in between are the ones the real emitter
   writes (hand-run differential against the real emitter / readers: see the header of `Model/IfaceRestEnv.lean`).
2. **`EnvOK (restEnv pyExpr)`** is the hypothesis on `pyExpr` itself (`restEnv_ok`): `EnvOK` speaks about `pyExpr` only.
3. **The bridge** `IfaceRest.rest_docHyp : InRest f cfg ir → docHyp (restEnv pyExpr) f cfg ir = true` for all four formats,
   where `InRest` is decidable and phrased with `C01Whole.InDomain` of the converted interface:
   * function: `C01Whole.rest_roundtrip_full` is used *as it stands* — the indent stage of the emitter is undone by the
     parser's normalisation (`normText_indented`), an `emit_default_doc=False` docstring is the `emit_default_doc=True`
     docstring of the interface without defaults (`candidate_strip'`);
   * class / pydantic: `rest_roundtrip_full` does **not** apply (it is about `purpose="function"`: `:param` keys, blank
     line between entries; the class emitter writes `:cvar` keys on consecutive lines) — a `purpose="class"` analogue is
     proved from the same ingredients (`parse_cls_text`);
   * argparse: `docHyp` only asks that descriptions announce no default (`extract_plain`) when the return entry has no
     default.
   Hence `C02Rest_class`, `C02Rest_pydantic`, `C02Rest_function`, `C02Rest_argparse`: the C02 round trips with **no
   docstring-layer hypothesis**.
4. **C03's closure hypothesis is discharged** on the region `DomR` (all four `InRest` and `inD02`, normalisations the
   identity, header not quote-wrapped): `C03Rest_closed`, hence `C03Rest_chain` — every chain of class / pydantic /
   function / argparse hops through the concrete ReST layer succeeds and preserves the view, with the CPython fact about
   `pyExpr` as the only assumption — and `C03Rest_commute`, `C08Rest_rounds`.  `ClsTypeLaw (restEnv pyExpr)` is proved;
   `AnswersViewOnly (restEnv pyExpr) cfg` is **false** (`restEnv_not_viewOnly`: the layer echoes the raw description), so
   `C08Iface.stable_of_laws` does not apply and closure is proved directly from the closed forms of the hops (`hop_raw`).
   `DocLayerStable (restEnv pyExpr) cfg` as stated in `C08Iface` quantifies over *all* of `Dom`, which is larger than
   `DomR` (`InRest` is sufficient for `docHyp`, not necessary); `C03Rest_docLayerStable` is its restriction to `DomR`.

## `InRest f cfg ir` (decidable; `Proofs/IfaceRestEnv.lean`)

* class / pydantic (`inRestCls`): ReST, `emit_default_doc=False`, **no return entry**, the interface without its defaults
  is in `C01Whole.InDomain`, the header is one non-empty line, at least one attribute, the emitter model answers (no
  line is re-flowed by `textwrap.fill`), no description triggers `parse_adhoc_doc_for_typ`;
* function (`inRestFn`): the same with a return entry allowed;
* argparse (`inRestArgparse`): every description announces no default and is not wrapped in one kind of quote; the return
  entry has no default.

Each restriction that is not in `C01Whole.InDomain` is there for a reason that is visible on the model *and* on the real
code: `emit_default_doc=True` makes the function / argparse readers keep the prose `Defaults to …` in the description
(`function_edd_description_drift`); with an empty header the indent stage inserts a blank line after the first entry
line (`empty_header_blank_line`; harmless for the parser, it only breaks the textual identity used in the proof).
-/
namespace C02Rest
open Iface IfaceRest

/-! ## 1. the composed model computes

(Kernel evaluation of `String.ofList` / `String.toList` is slow on long texts, so the interface is kept short and the
docstrings are also shown at the character-list level, `docEmitL`.) -/

/-- `cs!"abc"` = `['a','b','c']` -/
local macro:max "cs!" s:str : term => do
  let cs := s.getString.toList
  let elems := cs.map (fun c => Lean.Syntax.mkCharLit c)
  `(([$(elems.toArray),*] : List Char))

/-- three parameters with defaults of their own types, a one-line header -/
def irE : IR :=
  { name := some "F", doc := "Fit.",
    params := [("lr", { doc := some "step size", typ := some "float", default := some (.val (.float "0.5")) }),
               ("n", { doc := some "rounds", typ := some "int", default := some (.val (.int 10)) }),
               ("v", { doc := some "be loud", typ := some "bool", default := some (.val (.bool false)) })],
    returns := none }

/-- one parameter and a return entry with a source default under a compound type -/
def irR : IR :=
  { name := some "F", doc := "Fit.", params := [("n", { doc := some "rounds", typ := some "int", default := some (.val (.int 10)) })],
    returns := some { doc := some "the fit", typ := some "List[int]", default := some (.val (.str "K")) } }

/-- a small expression parser, enough for the examples: the name `K` -/
def pyX : String → Option Expr := fun s => if s == "K" then some (.name "K") else none

theorem pyX_ok : ∀ s, codeQuoted s = true → pyX s = none := by
  intro s hs
  unfold pyX
  split
  · rename_i h
    have := beq_iff_eq.mp h
    subst this
    revert hs; decide
  · rfl

/-- the class docstring `restEnv` writes for `irE` (what `cdd.docstring.emit.docstring(…, purpose="class", indent_level=1)` writes) -/
example : docEmitL (classDocCfg {}) (classDocIR irE)
    = .ok cs!"\n    Fit.\n    \n    :cvar lr: step size\n    :cvar n: rounds\n    :cvar v: be loud\n    " := by
  decide +kernel

/-- the function docstring, types in the docstring (`indent_level=2`, `emit_separating_tab=False`) -/
example : docEmitL (fnDocCfg { typeAnnotations := false }) irR
    = .ok cs!"\n        Fit.\n\n        :param n: rounds\n        :type n: ```int```\n\n        :return: the fit\n        :rtype: ```List[int]```\n        " := by
  decide +kernel

/-- the docstring heading the argparse function -/
example : docEmitL (argparseDocCfg {}) (argparseDocIR irR)
    = .ok cs!"\n    Set CLI arguments\n    \n    :param argument_parser: argument parser\n    :type argument_parser: ```ArgumentParser```\n    \n    :return: argument_parser, the fit\n    :rtype: ```Tuple[ArgumentParser, List[int]]```\n    " := by
  decide +kernel

/-- **class**: emit → source → parse through the concrete layer gives the interface back (the view written out) -/
example : C02.roundTrip (restEnv pyX) .class_ {} irE =
    .ok ([{ name := "lr", typ := some "float", default := some (.val (.float "0.5")), doc := some "step size" },
          { name := "n", typ := some "int", default := some (.val (.int 10)), doc := some "rounds" },
          { name := "v", typ := some "bool", default := some (.val (.bool false)), doc := some "be loud" }], none) := by
  decide +kernel
/-- **pydantic** -/
example : C02.roundTrip (restEnv pyX) .pydantic {} irE = .ok irE.view := by decide +kernel
/-- **function**, annotations in the signature -/
example : C02.roundTrip (restEnv pyX) .function {} irE = .ok (C02.norm .function irE).view := by decide +kernel
/-- **argparse** -/
example : C02.roundTrip (restEnv pyX) .argparse {} irE = .ok (C02.norm .argparse irE).view := by decide +kernel
/-- **function**, types in the docstring, positional parameters, a return entry with a default -/
example : C02.roundTrip (restEnv pyX) .function { typeAnnotations := false, kwOnly := false } irR
    = .ok (C02.norm .function irR).view := by decide +kernel

/-! ## 2. `EnvOK` -/

/-- **`EnvOK (restEnv pyExpr)`** is the CPython fact about `pyExpr`: a source wrapped in backticks does not parse -/
theorem restEnv_envOK (pyExpr : String → Option Expr) (h : ∀ s, codeQuoted s = true → pyExpr s = none) : EnvOK (restEnv pyExpr) :=
  restEnv_ok pyExpr h

/-! ## 3. the bridge and the round trips without a docstring-layer hypothesis -/

/-- **the bridge** (all four formats): on `InRest` the concrete layer satisfies C02's docstring-layer hypothesis -/
theorem docHyp_of_InRest (pyExpr : String → Option Expr) (f : Format) (cfg : Cfg) (ir : IR) (h : InRest f cfg ir) :
    docHyp (restEnv pyExpr) f cfg ir = true := rest_docHyp pyExpr f cfg ir h

/-- **class (partial: on `InRest` ∩ `inD02`)**: no abstract docstring layer -/
theorem C02Rest_class (pyExpr : String → Option Expr) (hpx : ∀ s, codeQuoted s = true → pyExpr s = none) (cfg : Cfg) (ir : IR)
    (hR : InRest .class_ cfg ir) (hD : inD02 (restEnv pyExpr) .class_ cfg ir = true) :
    C02.roundTrip (restEnv pyExpr) .class_ cfg ir = .ok (C02.norm .class_ ir).view :=
  C02.C02_class (restEnv pyExpr) (restEnv_ok pyExpr hpx) cfg ir hD (rest_docHyp pyExpr .class_ cfg ir hR)

/-- **pydantic (partial: on `InRest` ∩ `inD02`)** -/
theorem C02Rest_pydantic (pyExpr : String → Option Expr) (hpx : ∀ s, codeQuoted s = true → pyExpr s = none) (cfg : Cfg) (ir : IR)
    (hR : InRest .pydantic cfg ir) (hD : inD02 (restEnv pyExpr) .pydantic cfg ir = true) :
    C02.roundTrip (restEnv pyExpr) .pydantic cfg ir = .ok (C02.norm .pydantic ir).view :=
  C02.C02_pydantic (restEnv pyExpr) (restEnv_ok pyExpr hpx) cfg ir hD (rest_docHyp pyExpr .pydantic cfg ir hR)

/-- **function (partial: on `InRest` ∩ `inD02`)**: uses `C01Whole.rest_roundtrip_full` for the docstring -/
theorem C02Rest_function (pyExpr : String → Option Expr) (cfg : Cfg) (ir : IR)
    (hR : InRest .function cfg ir) (hD : inD02 (restEnv pyExpr) .function cfg ir = true) :
    C02.roundTrip (restEnv pyExpr) .function cfg ir = .ok (C02.norm .function ir).view :=
  C02.C02_function (restEnv pyExpr) cfg ir hD (rest_docHyp pyExpr .function cfg ir hR)

/-- **argparse (partial: on `InRest` ∩ `inD02`)** -/
theorem C02Rest_argparse (pyExpr : String → Option Expr) (cfg : Cfg) (ir : IR)
    (hR : InRest .argparse cfg ir) (hD : inD02 (restEnv pyExpr) .argparse cfg ir = true) :
    C02.roundTrip (restEnv pyExpr) .argparse cfg ir = .ok (C02.norm .argparse ir).view :=
  C02.C02_argparse (restEnv pyExpr) cfg ir hD (rest_docHyp pyExpr .argparse cfg ir hR)

/-- non-vacuity: `irE` satisfies the hypotheses of all four corollaries (with `pyX`) -/
example : (∀ f : Format, InRest f {} irE) ∧ (∀ f : Format, inD02 (restEnv pyX) f {} irE = true) := by
  constructor <;> intro f <;> cases f <;> decide +kernel

/-- non-vacuity of `C02Rest_function` with the types in the docstring and a return entry (with a default) -/
example : InRest .function { typeAnnotations := false } irR ∧ inD02 (restEnv pyX) .function { typeAnnotations := false } irR = true := by
  constructor <;> decide +kernel

/-- an instance of `C02Rest_class` (a use of the theorem, not an evaluation) -/
example : C02.roundTrip (restEnv pyX) .class_ {} irE = .ok irE.view :=
  C02Rest_class pyX pyX_ok {} irE (by decide +kernel) (by decide +kernel)

/-! ## where the two models do not fit (witnesses) -/

/-- `Doc.parseRest` abstains on the class docstring as the class emitter writes it (tokens not at line starts; and, once
    they are, the `:cvar` field) … -/
theorem parseRest_abstains_on_class_docstring :
    Out.isOk (docEmitL (classDocCfg {}) (classDocIR irE)) = true ∧
    (match docEmitL (classDocCfg {}) (classDocIR irE) with | .ok t => Doc.parseRest t false | .outside w => .outside w)
      = .outside "token inside a line" ∧
    (match candidate true (irToDoc irE) false true false with | .ok t => Doc.parseRest t false | .outside w => .outside w)
      = .outside "raises / cvar / ivar / var field" := by
  refine ⟨?_, ?_, ?_⟩ <;> decide +kernel

/-- … and on the indented function docstring: `normText` is needed in front of it -/
theorem parseRest_abstains_on_indented_docstring :
    (match docEmitL (fnDocCfg {}) irE with | .ok t => Doc.parseRest t true | .outside w => .outside w)
      = .outside "token inside a line" := by
  decide +kernel

/-- the class-purpose text is not the function-purpose text: `C01Whole.rest_roundtrip_full` (about `Doc.emit`) says nothing
    about class docstrings -/
theorem class_purpose_differs :
    candidate true (irToDoc irE) false true false = .ok cs!"Fit.\n\n:cvar lr: step size\n:cvar n: rounds\n:cvar v: be loud\n"
    ∧ Doc.emit (irToDoc irE) .rest false true false = .ok cs!"Fit.\n\n:param lr: step size\n\n:param n: rounds\n\n:param v: be loud\n" := by
  constructor <;> decide +kernel

/-- a one-parameter interface, as short as can be -/
def irS : IR := { name := some "F", doc := "H", params := [("x", { doc := some "go", typ := some "int", default := some (.val (.int 7)) })] }

/-- **`emit_default_doc=True`, function**: the docstring reader keeps `Defaults to …` in the description, so the round trip
    changes the description (the docstring-layer hypothesis fails; the real code does the same) -/
theorem function_edd_description_drift :
    docHyp (restEnv pyX) .function { emitDefaultDoc := true } irS = false ∧
    (C02.roundTrip (restEnv pyX) .function { emitDefaultDoc := true } irS).map (fun v => v.1.map (·.doc))
      = .ok [some "go. Defaults to 7"] := by
  constructor <;> decide +kernel

/-- with an empty header the indent stage inserts a blank line after the first entry line (as the real emitter does) -/
theorem empty_header_blank_line :
    docEmitL (classDocCfg {}) (classDocIR { irE with doc := "" })
      = .ok cs!"\n    :cvar lr: step size\n    \n    :cvar n: rounds\n    :cvar v: be loud\n    " := by
  decide +kernel

/-! ## 4. C03's closure hypothesis, discharged for the concrete layer

`C03Iface.chain_iface` needs `closed` (the region is closed under hops), which `C08Iface` reduced to `DocLayerStable` — a
statement about what the abstract docstring layer answers for the *next* docstring.  For `restEnv` it is proved on the
region `DomR pyExpr cfg ir` (`Proofs/IfaceRestEnv.lean`): `InRest` and the C02 domain for every format, the statement's
normalisations are the identity, the header is not wrapped in one kind of quote.  The reason is `hop_raw`: on this region a
hop gives back the very header and raw descriptions it was given (`tidyDoc d = d`), so the interface that comes back
differs from the input in its name and receiver kind only, which `InRest` does not read. -/

/-- `ClsTypeLaw` of `C08Iface` holds for the concrete layer: the docstring reader answers `static` -/
theorem restEnv_clsTypeLaw (pyExpr : String → Option Expr) : C08Iface.ClsTypeLaw (restEnv pyExpr) := clsTypeLaw pyExpr

/-- `AnswersViewOnly` is **false** for the concrete layer: it echoes the raw description (`"go"` / `"go."` have
    the same view), so `C08Iface.stable_of_laws` cannot be used for it — closure is proved directly instead -/
theorem restEnv_not_viewOnly (pyExpr : String → Option Expr) : ¬ C08Iface.AnswersViewOnly (restEnv pyExpr) {} := by
  intro h
  have h1 := (h irS { irS with params := [("x", { doc := some "go.", typ := some "int", default := some (.val (.int 7)) })] } (by decide +kernel)).1
  have h2 : clsDocIR0 (restEnv pyX) {} irS
      = clsDocIR0 (restEnv pyX) {} { irS with params := [("x", { doc := some "go.", typ := some "int", default := some (.val (.int 7)) })] } := h1
  revert h2
  decide +kernel

/-- **closure (the `closed` hypothesis of `C03Iface.chain_iface`, on `DomR`)**: a hop from `DomR` lands in `DomR` -/
theorem C03Rest_closed (pyExpr : String → Option Expr) (hpx : ∀ s, codeQuoted s = true → pyExpr s = none) (cfg : Cfg)
    (f : Format) (ir ir' : IR) (h : DomR pyExpr cfg ir) (hh : C03Iface.hopE (restEnv pyExpr) cfg f ir = .ok ir') :
    DomR pyExpr cfg ir' := domR_closed pyExpr hpx cfg f ir ir' h hh

/-- the docstring-layer clause of `C08Iface.DocLayerStable`, for hops that start in `DomR` -/
theorem C03Rest_docLayerStable (pyExpr : String → Option Expr) (hpx : ∀ s, codeQuoted s = true → pyExpr s = none) (cfg : Cfg)
    (f : Format) (ir ir' : IR) (h : DomR pyExpr cfg ir) (hh : C03Iface.hopE (restEnv pyExpr) cfg f ir = .ok ir') :
    ∀ g, docHyp (restEnv pyExpr) g cfg ir' = true :=
  fun g => rest_docHyp pyExpr g cfg ir' ((domR_closed pyExpr hpx cfg f ir ir' h hh).1 g)

/-- **C03 over class / pydantic / function / argparse with the concrete ReST layer, any length**: every chain of
    conversions from `DomR` succeeds and returns an interface with the same names, order, types, defaults and
    descriptions, again in `DomR`.  No docstring-layer hypothesis, no closure hypothesis. -/
theorem C03Rest_chain (pyExpr : String → Option Expr) (hpx : ∀ s, codeQuoted s = true → pyExpr s = none) (cfg : Cfg)
    (fs : List Format) (ir : IR) (h : DomR pyExpr cfg ir) :
    ∃ ir', C03Iface.chainE (restEnv pyExpr) cfg fs ir = .ok ir' ∧ ir'.view = ir.view ∧ DomR pyExpr cfg ir' :=
  chain_rest pyExpr hpx cfg fs ir h

/-- **commutation**: two chains from the same interface end with the same view -/
theorem C03Rest_commute (pyExpr : String → Option Expr) (hpx : ∀ s, codeQuoted s = true → pyExpr s = none) (cfg : Cfg)
    (fs gs : List Format) (ir : IR) (h : DomR pyExpr cfg ir) :
    ∃ a b, C03Iface.chainE (restEnv pyExpr) cfg fs ir = .ok a ∧ C03Iface.chainE (restEnv pyExpr) cfg gs ir = .ok b ∧ a.view = b.view := by
  obtain ⟨a, ha, hva, _⟩ := chain_rest pyExpr hpx cfg fs ir h
  obtain ⟨b, hb, hvb, _⟩ := chain_rest pyExpr hpx cfg gs ir h
  exact ⟨a, b, ha, hb, hva.trans hvb.symm⟩

/-- **C08 at the level of the view, any number of rounds of one format** -/
theorem C08Rest_rounds (pyExpr : String → Option Expr) (hpx : ∀ s, codeQuoted s = true → pyExpr s = none) (cfg : Cfg)
    (f : Format) (n : Nat) (ir : IR) (h : DomR pyExpr cfg ir) :
    ∃ a, C08Iface.roundsE (restEnv pyExpr) cfg f n ir = .ok a ∧ a.view = ir.view := by
  obtain ⟨a, ha, hva, _⟩ := chain_rest pyExpr hpx cfg (List.replicate n f) ir h
  exact ⟨a, ha, hva⟩

/-- non-vacuity: the three-parameter interface `irE` lies in `DomR` -/
theorem irE_domR : DomR pyX {} irE := by
  refine ⟨fun f => ?_, fun f => ?_, fun f => ?_, ?_⟩
  · cases f <;> decide +kernel
  · cases f <;> decide +kernel
  · cases f <;> decide +kernel
  · decide +kernel

/-- a chain through all four formats on the shortest interface, evaluated: it succeeds with the starting view
    (an instance of `C03Rest_chain`, here computed by the kernel) -/
example : (C03Iface.chainE (restEnv pyX) {} [.class_, .argparse, .function, .pydantic] irS).map IR.view = .ok irS.view := by
  decide +kernel

end C02Rest
