import CddVerif.Driver.PyStr
import CddVerif.Driver.C09
import CddVerif.Driver.C18
import CddVerif.Driver.C11
import CddVerif.Driver.C10
/-! Line-protocol driver: one JSON request per line on stdin → one JSON reply per line on stdout. -/
open Lean

def allOps : List (String × Driver.Handler) :=
  Driver.PyStr.ops ++ Driver.C09.ops ++ Driver.C18.ops ++ Driver.C11.ops ++ Driver.C10.ops

def handle (line : String) : String :=
  match Json.parse line with
  | .error e => (Json.mkObj [("error", Json.str s!"bad-json: {e}")]).compress
  | .ok j =>
    match j.getObjVal? "op" >>= Json.getStr? with
    | .error _ => (Json.mkObj [("error", Json.str "no-op")]).compress
    | .ok op =>
      match allOps.find? (·.1 == op) with
      | none => (Json.mkObj [("error", Json.str s!"unknown-op: {op}")]).compress
      | some (_, h) =>
        match h j with
        | .ok r => r.compress
        | .error e => (Json.mkObj [("error", Json.str e)]).compress

partial def loop (hin : IO.FS.Stream) (hout : IO.FS.Stream) : IO Unit := do
  let line ← hin.getLine
  if line.isEmpty then return ()
  let t := line.trimAscii.toString
  if t.isEmpty then loop hin hout else
  hout.putStrLn (handle t)
  hout.flush
  loop hin hout

def main : IO Unit := do
  loop (← IO.getStdin) (← IO.getStdout)
