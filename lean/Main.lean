import CddVerif.Driver.PyStr
import CddVerif.Driver.C01
import CddVerif.Driver.C02
import CddVerif.Driver.C03
import CddVerif.Driver.C04
import CddVerif.Driver.C05
import CddVerif.Driver.C06
import CddVerif.Driver.C07
import CddVerif.Driver.C08
import CddVerif.Driver.C09
import CddVerif.Driver.C10
import CddVerif.Driver.C10Join
import CddVerif.Driver.C11
import CddVerif.Driver.C12
import CddVerif.Driver.C13
import CddVerif.Driver.C14
import CddVerif.Driver.C14GN
import CddVerif.Driver.C15
import CddVerif.Driver.C16
import CddVerif.Driver.C17
import CddVerif.Driver.C18
import CddVerif.Driver.C19
import CddVerif.Driver.C20
/-! Line-protocol driver: one JSON request per line on stdin → one JSON reply per line on stdout.
    Each property registers its ops in `CddVerif/Driver/Cxx.lean` (`def ops`). -/
open Lean

def allOps : List (String × Driver.Handler) :=
  Driver.PyStr.ops ++ Driver.C01.ops ++ Driver.C02.ops ++ Driver.C03.ops ++ Driver.C04.ops ++ Driver.C05.ops ++
  Driver.C06.ops ++ Driver.C07.ops ++ Driver.C08.ops ++ Driver.C09.ops ++ Driver.C10.ops ++ Driver.C10Join.ops ++ Driver.C11.ops ++
  Driver.C12.ops ++ Driver.C13.ops ++ Driver.C14.ops ++ Driver.C15.ops ++ Driver.C16.ops ++ Driver.C17.ops ++
  Driver.C18.ops ++ Driver.C19.ops ++ Driver.C20.ops ++ Driver.C14GN.ops

def handle (line : String) : String :=
  match Json.parse line with
  | .error e => (Json.mkObj [("error", Json.str s!"bad-json: {e}")]).compress
  | .ok j =>
    match j.getObjVal? "op" >>= Json.getStr? with
    | .error _ => (Json.mkObj [("error", Json.str "no-op")]).compress
    | .ok op =>
      match allOps.find? (·.1 == op) with
      | none => (Json.mkObj [("error", Json.str s!"unknown-op: {op}")]).compress
      | some (_, h) =>
        match h j with
        | .ok r => r.compress
        | .error e => (Json.mkObj [("error", Json.str e)]).compress

partial def loop (hin : IO.FS.Stream) (hout : IO.FS.Stream) : IO Unit := do
  let line ← hin.getLine
  if line.isEmpty then return ()
  let t := line.trimAscii.toString
  if t.isEmpty then loop hin hout else
  hout.putStrLn (handle t)
  hout.flush
  loop hin hout

def main : IO Unit := do
  loop (← IO.getStdin) (← IO.getStdout)
